#!/bin/bash
# Build the overlay venv (offline): python of /venv + z3-solver, crosshair-tool, jsonschema from the wheelhouse.
set -e
HERE="$(cd "$(dirname "$0")" && pwd)"
cd "$HERE"
if [ ! -x .venv/bin/python ]; then
  /venv/bin/python -m venv .venv
fi
SP=$(.venv/bin/python -c "import site;print(site.getsitepackages()[0])")
printf "/venv/lib/python3.12/site-packages\n/repo/src\n" > "$SP/reduino_overlay.pth"
if ! .venv/bin/python -c "import z3, jsonschema, crosshair" >/dev/null 2>&1; then
  PIP_NO_INDEX=1 .venv/bin/pip install -q --no-index --find-links /opt/veriftools/wheels z3-solver jsonschema crosshair-tool
fi
.venv/bin/python -c "import z3, jsonschema, Reduino; print('verif venv ok', z3.get_version_string())"
