// Mock Arduino core for verification. Plain C++ on top of a few extern "C"
// primitives. The symbolic executor (vlib/fwsym.py) intercepts the primitives;
// mock/runtime.cpp implements them concretely for replay. Only the documented
// Arduino API surface is declared.
#ifndef VERIF_MOCK_ARDUINO_H
#define VERIF_MOCK_ARDUINO_H

#include <stdint.h>
#include <stddef.h>
#include <stdbool.h>
#include <string.h>
#include <stdlib.h>
#include <math.h>

#define HIGH 0x1
#define LOW 0x0
#define INPUT 0x0
#define OUTPUT 0x1
#define INPUT_PULLUP 0x2
#define LED_BUILTIN 13
#define DEC 10
#define HEX 16
#define OCT 8
#define BIN 2
#define PI 3.1415926535897932384626433832795

static const uint8_t A0 = 14;
static const uint8_t A1 = 15;
static const uint8_t A2 = 16;
static const uint8_t A3 = 17;
static const uint8_t A4 = 18;
static const uint8_t A5 = 19;
static const uint8_t A6 = 20;
static const uint8_t A7 = 21;

typedef bool boolean;
typedef uint8_t byte;
typedef unsigned int word;

// The AVR core defines these as macros (Arduino.h); double evaluation is real.
#ifdef abs
#undef abs
#endif
#define min(a,b) ((a)<(b)?(a):(b))
#define max(a,b) ((a)>(b)?(a):(b))
#define abs(x) ((x)>0?(x):-(x))
#define constrain(amt,low,high) ((amt)<(low)?(low):((amt)>(high)?(high):(amt)))
#define round(x)     ((x)>=0?(long)((x)+0.5):(long)((x)-0.5))
#define sq(x) ((x)*(x))

extern "C" {
void pinMode(uint8_t pin, uint8_t mode);
void digitalWrite(uint8_t pin, uint8_t val);
int digitalRead(uint8_t pin);
int analogRead(uint8_t pin);
void analogWrite(uint8_t pin, int val);
unsigned long millis(void);
unsigned long micros(void);
void delay(unsigned long ms);
void delayMicroseconds(unsigned int us);
void noTone(uint8_t pin);
// verification primitives
int __vp_tok_int(long v);
int __vp_tok_uint(unsigned long v);
int __vp_tok_flt(double v, int places);
void __vp_serial_begin(unsigned long baud);
void __vp_serial_int(long v);
void __vp_serial_uint(unsigned long v);
void __vp_serial_flt(double v, int places);
void __vp_serial_char(int c);
void __vp_serial_cells(const int *cells, int len);
void __vp_serial_cstr(const char *s);
void __vp_serial_nl(void);
void __vp_imprecise(int why);
void __vp_unsupported(int why);
}
unsigned long pulseIn(uint8_t pin, uint8_t state, unsigned long timeout = 1000000UL);
void tone(uint8_t pin, unsigned int frequency, unsigned long duration = 0);
long map(long x, long in_min, long in_max, long out_min, long out_max);
long random(long howbig);
long random(long howsmall, long howbig);

class __FlashStringHelper;
#define F(string_literal) (reinterpret_cast<const __FlashStringHelper *>(string_literal))

#define __VP_STR_CAP 64
#define __VP_TOK_BASE 0x100000

class StringSumHelper;

class String {
public:
  int __len;
  int __ntok;
  int __buf[__VP_STR_CAP];

  void __set_cstr(const char *s) {
    __len = 0; __ntok = 0;
    if (!s) return;
    while (*s) { __push((int)(unsigned char)*s); ++s; }
  }
  void __push(int cell) {
    if (__len >= __VP_STR_CAP) { __vp_unsupported(1); return; }
    __buf[__len++] = cell;
    if (cell >= __VP_TOK_BASE) ++__ntok;
  }
  void __copy(const String &o) {
    int n = o.__len;
    for (int i = 0; i < n; ++i) __buf[i] = o.__buf[i];
    __len = n; __ntok = o.__ntok;
  }
  void __append(const String &o) {
    int n = o.__len;
    for (int i = 0; i < n; ++i) __push(o.__buf[i]);
  }

  String(const char *cstr = "") { __set_cstr(cstr); }
  String(const String &str) { __copy(str); }
  String(const __FlashStringHelper *str) { __set_cstr(reinterpret_cast<const char *>(str)); }
  explicit String(char c) { __len = 0; __ntok = 0; __push((int)(unsigned char)c); }
  explicit String(unsigned char v, unsigned char base = 10) { __len = 0; __ntok = 0; __push(__vp_tok_uint(v)); }
  explicit String(int v, unsigned char base = 10) { __len = 0; __ntok = 0; __push(__vp_tok_int(v)); }
  explicit String(unsigned int v, unsigned char base = 10) { __len = 0; __ntok = 0; __push(__vp_tok_uint(v)); }
  explicit String(long v, unsigned char base = 10) { __len = 0; __ntok = 0; __push(__vp_tok_int(v)); }
  explicit String(unsigned long v, unsigned char base = 10) { __len = 0; __ntok = 0; __push(__vp_tok_uint(v)); }
  explicit String(float v, unsigned char decimalPlaces = 2) { __len = 0; __ntok = 0; __push(__vp_tok_flt(v, decimalPlaces)); }
  explicit String(double v, unsigned char decimalPlaces = 2) { __len = 0; __ntok = 0; __push(__vp_tok_flt(v, decimalPlaces)); }
  ~String(void) {}

  unsigned int length(void) const { if (__ntok) __vp_imprecise(1); return (unsigned int)__len; }

  String &operator=(const String &rhs) { if (this != &rhs) __copy(rhs); return *this; }
  String &operator=(const char *cstr) { __set_cstr(cstr); return *this; }
  String &operator=(const __FlashStringHelper *str) { __set_cstr(reinterpret_cast<const char *>(str)); return *this; }

  unsigned char concat(const String &str) { __append(str); return 1; }
  unsigned char concat(const char *cstr) { String t(cstr); __append(t); return 1; }
  unsigned char concat(char c) { __push((int)(unsigned char)c); return 1; }
  unsigned char concat(unsigned char c) { __push(__vp_tok_uint(c)); return 1; }
  unsigned char concat(int num) { __push(__vp_tok_int(num)); return 1; }
  unsigned char concat(unsigned int num) { __push(__vp_tok_uint(num)); return 1; }
  unsigned char concat(long num) { __push(__vp_tok_int(num)); return 1; }
  unsigned char concat(unsigned long num) { __push(__vp_tok_uint(num)); return 1; }
  unsigned char concat(float num) { __push(__vp_tok_flt(num, 2)); return 1; }
  unsigned char concat(double num) { __push(__vp_tok_flt(num, 2)); return 1; }
  unsigned char concat(const __FlashStringHelper *str) { String t(str); __append(t); return 1; }

  String &operator+=(const String &rhs) { concat(rhs); return *this; }
  String &operator+=(const char *cstr) { concat(cstr); return *this; }
  String &operator+=(char c) { concat(c); return *this; }
  String &operator+=(unsigned char num) { concat(num); return *this; }
  String &operator+=(int num) { concat(num); return *this; }
  String &operator+=(unsigned int num) { concat(num); return *this; }
  String &operator+=(long num) { concat(num); return *this; }
  String &operator+=(unsigned long num) { concat(num); return *this; }
  String &operator+=(float num) { concat(num); return *this; }
  String &operator+=(double num) { concat(num); return *this; }
  String &operator+=(const __FlashStringHelper *str) { concat(str); return *this; }

  friend StringSumHelper &operator+(const StringSumHelper &lhs, const String &rhs);
  friend StringSumHelper &operator+(const StringSumHelper &lhs, const char *cstr);
  friend StringSumHelper &operator+(const StringSumHelper &lhs, char c);
  friend StringSumHelper &operator+(const StringSumHelper &lhs, unsigned char num);
  friend StringSumHelper &operator+(const StringSumHelper &lhs, int num);
  friend StringSumHelper &operator+(const StringSumHelper &lhs, unsigned int num);
  friend StringSumHelper &operator+(const StringSumHelper &lhs, long num);
  friend StringSumHelper &operator+(const StringSumHelper &lhs, unsigned long num);
  friend StringSumHelper &operator+(const StringSumHelper &lhs, float num);
  friend StringSumHelper &operator+(const StringSumHelper &lhs, double num);
  friend StringSumHelper &operator+(const StringSumHelper &lhs, const __FlashStringHelper *rhs);

  typedef void (String::*StringIfHelperType)() const;
  void StringIfHelper() const {}
  operator StringIfHelperType() const { return &String::StringIfHelper; }

  int compareTo(const String &s) const {
    if (__ntok || s.__ntok) __vp_imprecise(2);
    int n = __len < s.__len ? __len : s.__len;
    for (int i = 0; i < n; ++i) {
      if (__buf[i] != s.__buf[i]) return __buf[i] - s.__buf[i];
    }
    return __len - s.__len;
  }
  unsigned char equals(const String &s) const {
    if (__len != s.__len) { if (__ntok || s.__ntok) __vp_imprecise(3); return 0; }
    for (int i = 0; i < __len; ++i) {
      if (__buf[i] != s.__buf[i]) { if (__ntok || s.__ntok) __vp_imprecise(3); return 0; }
    }
    return 1;
  }
  unsigned char equals(const char *cstr) const { String t(cstr); return equals(t); }
  unsigned char operator==(const String &rhs) const { return equals(rhs); }
  unsigned char operator==(const char *cstr) const { return equals(cstr); }
  unsigned char operator!=(const String &rhs) const { return !equals(rhs); }
  unsigned char operator!=(const char *cstr) const { return !equals(cstr); }
  unsigned char operator<(const String &rhs) const { return compareTo(rhs) < 0; }
  unsigned char operator>(const String &rhs) const { return compareTo(rhs) > 0; }
  unsigned char operator<=(const String &rhs) const { return compareTo(rhs) <= 0; }
  unsigned char operator>=(const String &rhs) const { return compareTo(rhs) >= 0; }

  char charAt(unsigned int index) const {
    if (index >= (unsigned int)__len) return 0;
    if (__ntok) __vp_imprecise(4);
    return (char)__buf[index];
  }
  void setCharAt(unsigned int index, char c) {
    if (index < (unsigned int)__len) { if (__ntok) __vp_imprecise(4); __buf[index] = (int)(unsigned char)c; }
  }
  // Arduino returns a dummy for out-of-range indices; reads only here.
  char operator[](unsigned int index) const { return charAt(index); }
  char operator[](unsigned int index) { return charAt(index); }

  String substring(unsigned int beginIndex) const { return substring(beginIndex, (unsigned int)__len); }
  String substring(unsigned int left, unsigned int right) const {
    if (__ntok) __vp_imprecise(5);
    if (left > right) { unsigned int t = right; right = left; left = t; }
    String out;
    if (left >= (unsigned int)__len) return out;
    if (right > (unsigned int)__len) right = (unsigned int)__len;
    for (unsigned int i = left; i < right; ++i) out.__push(__buf[i]);
    return out;
  }
  long toInt(void) const { __vp_unsupported(2); return 0; }
  float toFloat(void) const { __vp_unsupported(2); return 0; }
};

class StringSumHelper : public String {
public:
  StringSumHelper(const String &s) : String(s) {}
  StringSumHelper(const char *p) : String(p) {}
  StringSumHelper(char c) : String(c) {}
  StringSumHelper(unsigned char num) : String(num) {}
  StringSumHelper(int num) : String(num) {}
  StringSumHelper(unsigned int num) : String(num) {}
  StringSumHelper(long num) : String(num) {}
  StringSumHelper(unsigned long num) : String(num) {}
  StringSumHelper(float num) : String(num) {}
  StringSumHelper(double num) : String(num) {}
};

inline StringSumHelper &operator+(const StringSumHelper &lhs, const String &rhs) { StringSumHelper &a = const_cast<StringSumHelper &>(lhs); a.concat(rhs); return a; }
inline StringSumHelper &operator+(const StringSumHelper &lhs, const char *cstr) { StringSumHelper &a = const_cast<StringSumHelper &>(lhs); a.concat(cstr); return a; }
inline StringSumHelper &operator+(const StringSumHelper &lhs, char c) { StringSumHelper &a = const_cast<StringSumHelper &>(lhs); a.concat(c); return a; }
inline StringSumHelper &operator+(const StringSumHelper &lhs, unsigned char num) { StringSumHelper &a = const_cast<StringSumHelper &>(lhs); a.concat(num); return a; }
inline StringSumHelper &operator+(const StringSumHelper &lhs, int num) { StringSumHelper &a = const_cast<StringSumHelper &>(lhs); a.concat(num); return a; }
inline StringSumHelper &operator+(const StringSumHelper &lhs, unsigned int num) { StringSumHelper &a = const_cast<StringSumHelper &>(lhs); a.concat(num); return a; }
inline StringSumHelper &operator+(const StringSumHelper &lhs, long num) { StringSumHelper &a = const_cast<StringSumHelper &>(lhs); a.concat(num); return a; }
inline StringSumHelper &operator+(const StringSumHelper &lhs, unsigned long num) { StringSumHelper &a = const_cast<StringSumHelper &>(lhs); a.concat(num); return a; }
inline StringSumHelper &operator+(const StringSumHelper &lhs, float num) { StringSumHelper &a = const_cast<StringSumHelper &>(lhs); a.concat(num); return a; }
inline StringSumHelper &operator+(const StringSumHelper &lhs, double num) { StringSumHelper &a = const_cast<StringSumHelper &>(lhs); a.concat(num); return a; }
inline StringSumHelper &operator+(const StringSumHelper &lhs, const __FlashStringHelper *rhs) { StringSumHelper &a = const_cast<StringSumHelper &>(lhs); a.concat(rhs); return a; }

// CRTP instead of virtual dispatch (keeps the IR free of vtables); D provides write(uint8_t) and __cell(int).
template <class D>
class __vp_print {
public:
  size_t print(const __FlashStringHelper *s) { return print(reinterpret_cast<const char *>(s)); }
  size_t print(const String &s) { for (int i = 0; i < s.__len; ++i) self().__cell(s.__buf[i]); return (size_t)s.__len; }
  size_t print(const char s[]) { size_t n = 0; while (s && *s) { self().write((uint8_t)*s); ++s; ++n; } return n; }
  size_t print(char c) { return self().write((uint8_t)c); }
  size_t print(unsigned char v, int base = DEC) { return self().__cell(__vp_tok_uint(v)); }
  size_t print(int v, int base = DEC) { return self().__cell(__vp_tok_int(v)); }
  size_t print(unsigned int v, int base = DEC) { return self().__cell(__vp_tok_uint(v)); }
  size_t print(long v, int base = DEC) { return self().__cell(__vp_tok_int(v)); }
  size_t print(unsigned long v, int base = DEC) { return self().__cell(__vp_tok_uint(v)); }
  size_t print(double v, int places = 2) { return self().__cell(__vp_tok_flt(v, places)); }
  size_t println(void) { return self().__newline(); }
  template <typename T> size_t println(const T &v) { size_t n = print(v); return n + println(); }
  template <typename T> size_t println(const T &v, int arg) { size_t n = print(v, arg); return n + println(); }
private:
  D &self() { return *static_cast<D *>(this); }
};

class HardwareSerial : public __vp_print<HardwareSerial> {
public:
  void begin(unsigned long baud) { __vp_serial_begin(baud); }
  void end() {}
  int available(void) { return 0; }
  int read(void) { return -1; }
  int peek(void) { return -1; }
  void flush(void) {}
  operator bool() { return true; }
  size_t write(uint8_t c) { __vp_serial_char((int)c); return 1; }
  size_t __cell(int cell) { __vp_serial_cells(&cell, 1); return 1; }
  size_t __newline() { __vp_serial_nl(); return 2; }
};

extern HardwareSerial Serial;

#endif
