#ifndef VERIF_MOCK_SERVO_H
#define VERIF_MOCK_SERVO_H
#include <Arduino.h>
extern "C" {
void __vp_servo_attach(const void *obj, int pin, int lo, int hi);
void __vp_servo_write(const void *obj, int value);
void __vp_servo_us(const void *obj, int value);
void __vp_servo_detach(const void *obj);
}
class Servo {
public:
  Servo() : __attached(0) {}
  uint8_t attach(int pin) { __attached = 1; __vp_servo_attach(this, pin, 544, 2400); return 0; }
  uint8_t attach(int pin, int min, int max) { __attached = 1; __vp_servo_attach(this, pin, min, max); return 0; }
  void detach() { __attached = 0; __vp_servo_detach(this); }
  void write(int value) { __vp_servo_write(this, value); }
  void writeMicroseconds(int value) { __vp_servo_us(this, value); }
  int read() { __vp_unsupported(10); return 0; }
  int readMicroseconds() { __vp_unsupported(10); return 0; }
  bool attached() { return __attached != 0; }
private:
  int __attached;
};
#endif
