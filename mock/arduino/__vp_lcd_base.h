#ifndef VERIF_MOCK_LCD_BASE_H
#define VERIF_MOCK_LCD_BASE_H
#include <Arduino.h>
extern "C" {
void __vp_lcd_init(const void *obj, int cols, int rows, int wiring);
void __vp_lcd_clear(const void *obj);
void __vp_lcd_cursor(const void *obj, int col, int row);
void __vp_lcd_put(const void *obj, int row, int col, int ch);
void __vp_lcd_display(const void *obj, int on);
void __vp_lcd_backlight(const void *obj, int on);
void __vp_lcd_glyph(const void *obj, int slot, const uint8_t *rows);
}
class __vp_lcd_base : public __vp_print<__vp_lcd_base> {
public:
  void clear() { __col = 0; __row = 0; __vp_lcd_clear(this); }
  void home() { __col = 0; __row = 0; __vp_lcd_cursor(this, 0, 0); }
  void setCursor(uint8_t col, uint8_t row) { __col = col; __row = row; __vp_lcd_cursor(this, col, row); }
  void display() { __vp_lcd_display(this, 1); }
  void noDisplay() { __vp_lcd_display(this, 0); }
  void createChar(uint8_t slot, uint8_t rows[]) { __vp_lcd_glyph(this, slot, rows); }
  void blink() {}
  void noBlink() {}
  void cursor() {}
  void noCursor() {}
  void scrollDisplayLeft() { __vp_unsupported(20); }
  void scrollDisplayRight() { __vp_unsupported(20); }
  void autoscroll() { __vp_unsupported(20); }
  void noAutoscroll() {}
  size_t write(uint8_t ch) { __vp_lcd_put(this, __row, __col, (int)ch); ++__col; return 1; }
  size_t __cell(int cell) { __vp_lcd_put(this, __row, __col, cell); ++__col; return 1; }
  size_t __newline() { write((uint8_t)'\r'); return write((uint8_t)'\n'); }
protected:
  __vp_lcd_base() : __col(0), __row(0) {}
  int __col;
  int __row;
};
#endif
