#ifndef VERIF_MOCK_LIQUIDCRYSTAL_H
#define VERIF_MOCK_LIQUIDCRYSTAL_H
#include <Arduino.h>
#include <__vp_lcd_base.h>
class LiquidCrystal : public __vp_lcd_base {
public:
  LiquidCrystal(uint8_t rs, uint8_t enable, uint8_t d0, uint8_t d1, uint8_t d2, uint8_t d3) {}
  LiquidCrystal(uint8_t rs, uint8_t rw, uint8_t enable, uint8_t d0, uint8_t d1, uint8_t d2, uint8_t d3) {}
  LiquidCrystal(uint8_t rs, uint8_t enable, uint8_t d0, uint8_t d1, uint8_t d2, uint8_t d3, uint8_t d4, uint8_t d5, uint8_t d6, uint8_t d7) {}
  LiquidCrystal(uint8_t rs, uint8_t rw, uint8_t enable, uint8_t d0, uint8_t d1, uint8_t d2, uint8_t d3, uint8_t d4, uint8_t d5, uint8_t d6, uint8_t d7) {}
  void begin(uint8_t cols, uint8_t rows, uint8_t charsize = 0) { __col = 0; __row = 0; __vp_lcd_init(this, cols, rows, 0); }
};
#endif
