#ifndef VERIF_MOCK_LIQUIDCRYSTAL_I2C_H
#define VERIF_MOCK_LIQUIDCRYSTAL_I2C_H
#include <Arduino.h>
#include <Wire.h>
#include <__vp_lcd_base.h>
class LiquidCrystal_I2C : public __vp_lcd_base {
public:
  LiquidCrystal_I2C(uint8_t addr, uint8_t cols, uint8_t rows) : __cols(cols), __rows(rows) {}
  void init() { __col = 0; __row = 0; __vp_lcd_init(this, __cols, __rows, 1); }
  void begin(uint8_t cols, uint8_t rows, uint8_t charsize = 0) { __col = 0; __row = 0; __vp_lcd_init(this, cols, rows, 1); }
  void backlight() { __vp_lcd_backlight(this, 1); }
  void noBacklight() { __vp_lcd_backlight(this, 0); }
  void setBacklight(uint8_t v) { __vp_lcd_backlight(this, v ? 1 : 0); }
private:
  int __cols;
  int __rows;
};
#endif
