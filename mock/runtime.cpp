// Concrete twin of the mock core primitives, for replaying counterexamples with g++.
// Inputs come from the file named by VERIF_INPUTS (lines: "<kind> <key> <k> <value>");
// events go to stdout, one per line, in the vocabulary of vlib/fwsym.py.
#include <stdio.h>
#include <stdlib.h>
#include <string.h>
#include <Arduino.h>

// plain C tables (no operator new inside the runtime: the heap counter must see only the sketch)
struct Tok { int kind; long iv; double fv; int places; };
#define MAX_TOKS 200000
#define MAX_INPUTS 20000
static Tok g_toks[MAX_TOKS];
static int g_ntoks = 0;
struct In { char kind[16]; long key; long k; double v; unsigned long long u; int exact; };
static In g_in[MAX_INPUTS];
static int g_nin = 0;
struct Cnt { char kind[16]; long key; long n; };
static Cnt g_cnt[4096];
static int g_ncnt = 0;
static bool g_loaded = false;

static void load_inputs() {
  if (g_loaded) return;
  g_loaded = true;
  const char *p = getenv("VERIF_INPUTS");
  if (!p) return;
  FILE *f = fopen(p, "r");
  if (!f) return;
  char kind[64]; long key, k; char val[80];
  while (g_nin < MAX_INPUTS && fscanf(f, "%15s %ld %ld %79s", kind, &key, &k, val) == 4) {
    strcpy(g_in[g_nin].kind, kind); g_in[g_nin].key = key; g_in[g_nin].k = k; g_in[g_nin].v = strtod(val, 0);
    // a value written without '.', 'e', "inf"/"nan" or sign is an exact unsigned integer (64-bit clock readings)
    g_in[g_nin].exact = (strspn(val, "0123456789") == strlen(val));
    g_in[g_nin].u = g_in[g_nin].exact ? strtoull(val, 0, 10) : 0ULL;
    ++g_nin;
  }
  fclose(f);
}

static int g_last_exact = 0;
static unsigned long long g_last_u = 0;

static double next_input(const char *kind, long key, double dflt) {
  load_inputs();
  g_last_exact = 0;
  long k = 0;
  int i;
  for (i = 0; i < g_ncnt; ++i) if (g_cnt[i].key == key && !strcmp(g_cnt[i].kind, kind)) break;
  if (i == g_ncnt) { strcpy(g_cnt[i].kind, kind); g_cnt[i].key = key; g_cnt[i].n = 0; ++g_ncnt; }
  k = g_cnt[i].n++;
  for (int j = 0; j < g_nin; ++j) if (g_in[j].key == key && g_in[j].k == k && !strcmp(g_in[j].kind, kind)) {
    g_last_exact = g_in[j].exact; g_last_u = g_in[j].u;
    return g_in[j].v;
  }
  return dflt;
}

static int new_tok(int kind, long iv, double fv, int places) {
  if (g_ntoks >= MAX_TOKS) { printf("note unsupported 99\n"); exit(3); }
  g_toks[g_ntoks].kind = kind; g_toks[g_ntoks].iv = iv; g_toks[g_ntoks].fv = fv; g_toks[g_ntoks].places = places;
  return __VP_TOK_BASE + g_ntoks++;
}

static void print_piece_cell(int cell) {
  if (cell >= __VP_TOK_BASE) {
    Tok &t = g_toks[cell - __VP_TOK_BASE];
    if (t.kind == 0) printf("ser int %ld\n", t.iv);
    else printf("ser flt %.17g %d\n", t.fv, t.places);
  } else {
    printf("ser c %d\n", cell);
  }
}

extern "C" {
void pinMode(uint8_t pin, uint8_t mode) { printf("pinMode %d %d\n", pin, mode); }
void digitalWrite(uint8_t pin, uint8_t val) { printf("digitalWrite %d %d\n", pin, val); }
void analogWrite(uint8_t pin, int val) { printf("analogWrite %d %d\n", pin, val); }
int digitalRead(uint8_t pin) { int v = (int)next_input("dread", pin, 0); printf("digitalRead %d %d\n", pin, v); return v; }
int analogRead(uint8_t pin) { int v = (int)next_input("aread", pin, 0); printf("analogRead %d %d\n", pin, v); return v; }
static unsigned long g_clock = 0, g_pending = 0;
unsigned long millis(void) {
  double d = next_input("millis", 0, -1.0);
  unsigned long v = d < 0 ? g_clock + g_pending : (g_last_exact ? (unsigned long)g_last_u : (unsigned long)d);
  g_clock = v; g_pending = 0;
  printf("millis %lu\n", v);
  return v;
}
unsigned long micros(void) { unsigned long v = (unsigned long)next_input("micros", 0, 0); printf("micros %lu\n", v); return v; }
void delay(unsigned long ms) { g_pending += ms; printf("delay %lu\n", ms); }
void delayMicroseconds(unsigned int us) { printf("delayMicroseconds %u\n", us); }
void noTone(uint8_t pin) { printf("noTone %d\n", pin); }
int __vp_tok_int(long v) { return new_tok(0, v, 0.0, 0); }
int __vp_tok_uint(unsigned long v) { return new_tok(0, (long)v, 0.0, 0); }
int __vp_tok_flt(double v, int places) { return new_tok(1, 0, v, places); }
void __vp_serial_begin(unsigned long baud) { printf("serial_begin %lu\n", baud); }
void __vp_serial_int(long v) { printf("ser int %ld\n", v); }
void __vp_serial_uint(unsigned long v) { printf("ser int %lu\n", v); }
void __vp_serial_flt(double v, int places) { printf("ser flt %.17g %d\n", v, places); }
void __vp_serial_char(int c) { printf("ser c %d\n", c); }
void __vp_serial_cells(const int *cells, int len) { for (int i = 0; i < len; ++i) print_piece_cell(cells[i]); }
void __vp_serial_cstr(const char *s) { while (s && *s) { printf("ser c %d\n", (int)(unsigned char)*s); ++s; } }
void __vp_serial_nl(void) { printf("ser c 10\n"); }
void __vp_imprecise(int why) { printf("note imprecise %d\n", why); }
void __vp_unsupported(int why) { printf("note unsupported %d\n", why); fflush(stdout); exit(3); }
void __vp_servo_attach(const void *obj, int pin, int lo, int hi) { printf("servo_attach %p %d %d %d\n", obj, pin, lo, hi); }
void __vp_servo_write(const void *obj, int value) { printf("servo_write %p %d\n", obj, value); }
void __vp_servo_us(const void *obj, int value) { printf("servo_us %p %d\n", obj, value); }
void __vp_servo_detach(const void *obj) { printf("servo_detach %p\n", obj); }
void __vp_lcd_init(const void *obj, int cols, int rows, int wiring) { printf("lcd_init %p %d %d %d\n", obj, cols, rows, wiring); }
void __vp_lcd_clear(const void *obj) { printf("lcd_clear %p\n", obj); }
void __vp_lcd_cursor(const void *obj, int col, int row) { printf("lcd_cursor %p %d %d\n", obj, col, row); }
void __vp_lcd_put(const void *obj, int row, int col, int ch) {
  if (ch >= __VP_TOK_BASE) { Tok &t = g_toks[ch - __VP_TOK_BASE]; if (t.kind == 0) printf("lcd_put %p %d %d int %ld\n", obj, row, col, t.iv); else printf("lcd_put %p %d %d flt %.17g\n", obj, row, col, t.fv); }
  else printf("lcd_put %p %d %d c %d\n", obj, row, col, ch);
}
void __vp_lcd_display(const void *obj, int on) { printf("lcd_display %p %d\n", obj, on); }
void __vp_lcd_backlight(const void *obj, int on) { printf("lcd_backlight %p %d\n", obj, on); }
void __vp_lcd_glyph(const void *obj, int slot, const uint8_t *rows) {
  printf("lcd_glyph %p %d", obj, slot); for (int i = 0; i < 8; ++i) printf(" %d", rows[i]); printf("\n");
}
}
unsigned long pulseIn(uint8_t pin, uint8_t state, unsigned long timeout) {
  unsigned long v = (unsigned long)next_input("pulse", pin, 0);
  printf("pulseIn %d %d %lu\n", pin, state, v);
  return v;
}
void tone(uint8_t pin, unsigned int frequency, unsigned long duration) { printf("tone %d %u %lu\n", pin, frequency, duration); }
long map(long x, long in_min, long in_max, long out_min, long out_max) { return (x - in_min) * (out_max - out_min) / (in_max - in_min) + out_min; }
long random(long howbig) { return 0; }
long random(long howsmall, long howbig) { return howsmall; }

HardwareSerial Serial;

void setup();
void loop();
extern "C" void __verif_prestate() __attribute__((weak));

// live heap accounting for C09 replays
static long g_live_blocks = 0;
void *operator new[](size_t n) { ++g_live_blocks; return malloc(n ? n : 1); }
void *operator new(size_t n) { ++g_live_blocks; return malloc(n ? n : 1); }
void operator delete[](void *p) noexcept { if (p) { --g_live_blocks; free(p); } }
void operator delete(void *p) noexcept { if (p) { --g_live_blocks; free(p); } }
void operator delete[](void *p, size_t) noexcept { if (p) { --g_live_blocks; free(p); } }
void operator delete(void *p, size_t) noexcept { if (p) { --g_live_blocks; free(p); } }

int main(int argc, char **argv) {
  int passes = argc > 1 ? atoi(argv[1]) : 1;
  printf("marker setup\n");
  setup();
  if (__verif_prestate) __verif_prestate();
  printf("heap %ld\n", g_live_blocks);
  for (int i = 0; i < passes; ++i) {
    printf("marker loop\n");
    loop();
    printf("heap %ld\n", g_live_blocks);
  }
  return 0;
}
