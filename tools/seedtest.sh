#!/bin/bash
# tools/seedtest.sh <PROP> <patch.diff> [tier]  -- apply a seeded change to /repo, run the check, always undo.
PROP=$1; PATCH=$2; TIER=${3:-quick}
cd /repo || exit 9
if ! git diff --quiet; then echo "repo dirty"; exit 9; fi
if ! git apply --3way "$PATCH" 2>/tmp/seedapply.err; then
  if ! git apply "$PATCH" 2>>/tmp/seedapply.err; then echo "APPLY-FAILED $(head -2 /tmp/seedapply.err | tr '\n' ' ')"; git reset -q; git checkout -- . ; exit 8; fi
fi
git reset -q
cd /verif
OUT=$(./check $PROP --tier $TIER 2>&1); RC=$?
echo "$OUT" | grep -E "^VIOLATION|^\[|HARNESS" | head -6
echo "RC=$RC"
git -C /repo checkout -- .
git -C /repo status --short | head -3
exit $RC
