#!/usr/bin/env python3
"""Regenerate MANIFEST.json from the table below (properties with a check module are claimed; the rest
are listed under not_applicable with the reason given here)."""
import json
import os

ROOT = os.path.dirname(os.path.dirname(os.path.abspath(__file__)))

TV = "translation_validation"
CHECKS = {
    "C01": dict(level=TV, engine="fwsym+pysym", technique="symbolic execution of the emitted C++ (LLVM IR) and of the script on CPython; SMT trace-equivalence per path pair; bounded skeleton families incl. the product of 27 statement kinds x 19 block contexts",
                text="bounded translation validation: for each enumerated skeleton, firmware IR and CPython are executed symbolically over all sensor inputs and N loop passes; z3/cvc5 decide trace inequality; counterexamples replayed on g++ and stock CPython",
                note="trusted: clang front end, mock Arduino core (vlib/mock), proxy semantics (validated by replay), z3/cvc5; skeleton families are finite; x86-64 int widths; float text format outside the claim"),
    "C02": dict(level=TV, engine="fwsym+pysym", technique="same differential as C01 on type-flow skeletons; values compared at every observation",
                text="bounded translation validation on type-flow skeletons: every observed value of a variable/parameter/result on the device equals CPython's value for all inputs",
                note="as C01; numbers compared by value so widening (int shown as 2.00) is not flagged"),
    "C03": dict(level=TV, engine="fwsym+pysym", technique="metamorphic skeleton families around every fold site, each member checked against CPython by the C01 differential",
                text="bounded translation validation of metamorphic variants (literal / variable-routed / mutated in other branches, loops, passes) around every transpile-time evaluation site",
                note="as C01"),
    "C04": dict(level="other", engine="fwsym+pysym", technique="inductive step: firmware shadow globals and host object fields havocked from shared symbolic variables, one call executed symbolically on both sides, SMT trace/getter equivalence; clamp safety as an SMT query on the firmware IR alone; the same differential with actuator commands placed in every block context",
                text="bounded symbolic inductive step per actuator method (arbitrary invariant-satisfying device state, literal or run-time arguments) comparing firmware IR against the real host class, plus solver-decided clamp safety for arbitrary out-of-range arguments",
                note="trusted: as C01 plus the representation invariants of DESIGN.md Appendix A; motor duty within one PWM count; binary32 vs binary64 within 1e-4; loops bounded (blink<=3, fade steps<=4)"),
    "C05": dict(level=TV, engine="fwsym+pysym", technique="C01 differential for N=0..3 passes + temporal monitors evaluated on every feasible symbolic firmware path (incl. device names re-bound at the top of the loop body); state-carrying statements in every block context over 3 passes; break-guard decided by the real parser under every block context that is not an inner loop",
                text="bounded translation validation of prologue/body splitting for N in 0..3 passes, with configure-before-use / once-per-pass monitors over all feasible firmware paths",
                note="as C01; monitors need literal pins (true for the skeletons)"),
    "C06": dict(level="other", engine="fwsym", technique="CrossHair (z3) on the real string-literal escaper for all short strings incl. control characters + clang front-end acceptance of every enumerated skeleton (937)",
                text="compiler-front-end acceptance of the C++ emitted for every accepted skeleton of every family (the mandatory first stage of all firmware checks) plus a CrossHair/z3 lemma on string escaping; only the lemma is solver-quantified",
                note="front end: clang++-14 against mock headers declaring the documented Arduino surface only; real AVR toolchain outside the claim; escaping lemma for all strings up to the stated length (a raw line break must make the text a non-literal)"),
    "C07": dict(level="other", engine="pysym+fwsym", technique="symbolic indentation/kind vectors through the real block collectors (pysym), z3 regular-expression inclusion on the live header patterns, CrossHair on _strip_inline_comment; F-vs-H symbolic trace differential on the statement-kind x block-context product (a vanished or misplaced statement is a trace difference); layout metamorphic cross-check through the real pipeline",
                text="bounded symbolic check that the block extent computed by the real collectors is Python's for every indentation/comment/blank arrangement within the bound, that header recognisers accept every spelling of the spec language, and that comment stripping matches a reference scanner; plus byte-identity of the firmware under 13 re-layouts of every skeleton",
                note="block lines <= 3 (quick) / 4; regex subset translator; the layout part is concrete per variant and the ignored-line audit uses the REDUINO_VERIF hook"),
    "C08": dict(level="other", engine="pysym", technique="z3 all-models enumeration of the calling conventions inspect.signature allows (symbolic per-parameter passing mode and keyword order); each model rendered (also in 40 blank-placement re-spellings) and bound by the real parse(); compared with the fully explicit call",
                text="every calling convention Python accepts for every constructor/method/Core helper (enumerated exhaustively by z3 from the signature constraints) is either rejected or yields the firmware of the explicit call carrying the values Python binds",
                note="marker values per parameter; provider/callback parameters outside the check; comparison on emitted text modulo numeric-literal spelling"),
    "C10": dict(level="other", engine="pysym", technique="set iteration order made a solver-chosen permutation inside the real parser/emitter modules (instrumented set type + AST rewrite of set literals; sorted() is order-free only when its key is injective on the elements), all order choices explored by symbolic path enumeration; replay under PYTHONHASHSEED 0..63",
                text="partial: output independence from set-iteration order decided over all order choices (reverse/rotate per iteration site) for the enumerated scripts; independence from earlier calls is a concrete cross-check only",
                note="history/interleaving and cross-platform ordering are outside the solver claim (stated in evidence)"),
    "C11": dict(level="other", engine="pysym", technique="inductive step over the real _eval_const evaluator on crafted trees with solver-chosen node class/operator/callee and symbolic leaf values (pysym); profiled call whitelist, outcome sort, power bound; z3 sequence/regex theory on every live regular expression: no loop body has a string that is both one and several iterations (catastrophic backtracking), findings timing-confirmed; audited hostile-corpus cross-check with a full module-state snapshot",
                text="partial: one evaluator step for every expression node class with symbolic leaves - only whitelisted callables run, result stays in the value sort or fails with an ordinary exception, no unbounded integer power; every regular expression of the transpiler is free of exponentially ambiguous loops (solver-decided); side-effect freedom, state freedom and whole-text robustness only cross-checked concretely under an audit hook",
                note="tree depth 1 (induction hypothesis on children); the sites/* part is concrete and outside the solver claim"),
    "C09": dict(level=TV, engine="fwsym+pysym", technique="symbolic execution of the emitted C++ (IR) with memory/UB monitors under the CPython path condition; heap sampled per pass; ASan/UBSan replay",
                text="bounded symbolic memory-safety and leak checking of list/str skeletons over N passes, indices constrained by the CPython run to be IndexError-free",
                note="trusted: fwsym memory model (validated by ASan/UBSan replay), mock String keeps characters inline (core String heap traffic outside the claim)"),
    "C12": dict(level="other", engine="pysym", technique="symbolic execution of the real target()/pio helpers with every effect a stub whose failure is a symbolic boolean (fault schedule chosen by the solver); claims as z3 implications over the fault variables",
                text="all feasible fault schedules x upload flag x platform/board classes explored symbolically through the real target(); ordering, propagation and content claims decided on each path's effect log",
                note="effects stubbed (subprocess, pathlib, tempfile, sys); parse/emit run concretely on three fixed scripts"),
    "C13": dict(level="other", engine="pysym", technique="z3 finite-domain string query (partition), CrossHair/z3 on _format_lib_section and on the real write_project over an in-memory file system with symbolic prior file contents, exhaustive enumeration of the finite registry x near-miss domain and of awkward ports/library lists through the real functions on a real scratch directory under an audit hook",
                text="registry exactness over the finite (registry + near-miss)^2 domain (enumeration, stated), partition by z3, final project files independent of symbolic prior contents and main.cpp verbatim (CrossHair), INI round-trip through configparser for awkward ports/lists with every write event of the process audited, de-duplication lemma by CrossHair",
                note="the partition query, the lib-section lemma and the prior-state lemma are solver-quantified; the rest is exhaustive over stated finite domains (a dict lookup on a symbolic string is not encoded)"),
    "C14": dict(level="other", engine="pysym", technique="symbolic execution of the real _collect_required_libraries/_program_contains and emit over Program objects whose shape (slot kinds, placements) is solver-chosen; parser link + clang front end on the same shapes",
                text="all Program shapes within the bound (<=3 device slots x 5 kinds x 3 placements x 3 constructor-argument variants) explored by symbolic path enumeration; libs <=> includes <=> instantiated classes on every path",
                note="configuration-space exploration: the solver enumerates shapes, there is no data quantification"),
    "C15": dict(level="other", engine="fwsym+pysym", technique="symbolic execution of the emitted firmware IR over symbolic input signals/clock; spec claims decided per path by SMT; host Button by pysym",
                text="bounded symbolic checking of button sampling/edges over N passes, potentiometer reads (differential vs CPython) and the real ultrasonic helper over a 2-call history reaching every static state, with symbolic echoes and clock - also with the millisecond counter free to wrap between any two readings",
                note="trusted: mock core, clock models (non-decreasing; and modular counter with arbitrary first reading), pulseIn contract (result <= timeout), z3/cvc5; float results compared through a token abstraction first (unsat there implies unsat of the exact claim); N<=3 passes quick"),
    "C16": dict(level="other", engine="fwsym", technique="symbolic execution of the emitted buzzer code (IR) with symbolic arguments; tone-protocol claims decided per path by SMT; melodies compared with the score table",
                text="bounded symbolic specification check of every buzzer call kind over run-time and literal arguments (incl. zero/negative), and of all seven melodies against the score table",
                note="host Buzzer is a placeholder, so the oracle is the property text; the melody table in the emitter is the definition of the tunes"),
    "C17": dict(level="other", engine="fwsym+pysym", technique="symbolic execution of the emitted LCD helper calls (IR, mock display records every put) vs the real host LCD (pysym); cell matrices compared per path; progress arithmetic decided by SMT (cvc5 on the FP kernel) against an integer reference with value, max_value and width all symbolic",
                text="bounded differential of LCD cell matrices (run-time column/row, enumerated geometry/length/alignment/clear) plus solver-decided progress-bar arithmetic on device and host and backlight/glyph traces",
                note="texts are literals; geometries enumerated (see evidence bounds); host block glyph = device 0xFF"),
    "C18": dict(level="other", engine="fwsym+pysym", technique="symbolic execution of the emitted start/tick templates over N passes with a symbolic clock; per-path SMT claims (no delay, row confinement, step bound, rate limit); host animate/tick by pysym with symbolic timestamps",
                text="bounded symbolic check of all four animation styles on device (IR) and host (real LCD.tick): never blocks, stays in its row, terminates within the linear bound unless looping, honours speed_ms over all tick time sequences",
                note="texts/geometries enumerated; termination checked with speed 0 over bound+2 passes; rate limit with speed 150 over 4 passes"),
    "C19": dict(level="other", engine="pysym", technique="symbolic execution of the real Python (z3 proxies) + SMT (QF_BV/QF_FP), inductive step",
                text="bounded symbolic inductive step per class: object state symbolic under the representation invariant, one real method call with symbolic arguments, postconditions decided by z3/cvc5 on every feasible path; obligations the solvers do not decide are reported inconclusive",
                note="trusted: z3/cvc5, proxy semantics (validated by stock-CPython replay of every counterexample), stated representation invariants; ints |v|<=2^31, finite doubles"),
    "C20": dict(level="other", engine="pysym", technique="symbolic execution of the real Python helpers over symbolic operation histories / values; SMT (BV, FP, NRA for the affine law); CrossHair (z3 strings) on SerialMonitor.write over symbolic text and newline",
                text="algebraic laws of the host helper models decided by z3 over the real code: Core pins as a memory over symbolic histories, frame law, exact affine map (reals), sleep, button edges, sensor pass-through, serial payload",
                note="trusted: z3/cvc5, proxy semantics; history length <= 2 quick / 3 thorough; IEEE rounding of Utils.map outside the claim"),
}

PENDING_REASON = "check not built yet in this session (work in progress; see DESIGN.md section 6 for the plan)"


def main():
    props = [json.loads(l) for l in open(os.path.join(ROOT, "properties.jsonl"))]
    checks = []
    na = []
    engines = {}
    for p in props:
        pid = p["id"]
        mod = os.path.join(ROOT, "vlib", "props", pid.lower() + ".py")
        c = CHECKS.get(pid)
        if c and os.path.exists(mod):
            checks.append({
                "property_id": pid,
                "quick_cmd": f"./check {pid} --tier quick",
                "thorough_cmd": f"./check {pid} --tier thorough",
                "evidence_file": f"evidence/{pid}.json",
                "replay_cmd_template": f"./check {pid} --replay {{path}}",
                "engine": c["engine"],
                "level_claimed": {"category": c["level"], "text": c["text"], "design_ref": f"DESIGN.md section 3, {pid}"},
                "level_note": c["note"],
                "technique": c["technique"],
            })
            for e in c["engine"].split("+"):
                engines.setdefault(e, []).append(pid)
        else:
            na.append({"property_id": pid, "reason": NA.get(pid, PENDING_REASON)})
    hooks_commits = []
    hc = os.path.join(ROOT, "hook_commits.txt")
    if os.path.exists(hc):
        hooks_commits = [l.split()[0] for l in open(hc) if l.strip()]
    man = {
        "version": 1,
        "setup_cmd": "./setup.sh",
        "hooks": {
            "guard": "REDUINO_VERIF",
            "enable": "checks export REDUINO_VERIF=1 before importing Reduino from /repo/src (vlib/run.py)",
            "baseline_off_cmd": "cd /repo && env -u REDUINO_VERIF /venv/bin/python -m pytest -ra -q -p no:cacheprovider --timeout=900 --continue-on-collection-errors",
            "source_commits": hooks_commits,
            "add_only": True,
        },
        "engines": [
            {"name": "fwsym", "path": "vlib/fwsym.py", "serves_properties": sorted(set(engines.get("fwsym", []))),
             "kind_free_text": "bounded symbolic executor (z3 BV/FP, DFS with push/pop, unwinding assertions) over the LLVM IR that clang++-14 emits for the generated C++ against the mock Arduino core"},
            {"name": "pysym", "path": "vlib/pysym.py", "serves_properties": sorted(set(engines.get("pysym", []))),
             "kind_free_text": "symbolic execution of the real Python (host modules, user scripts, transpiler fragments) on CPython with z3 proxies (BV64 ints, IEEE binary64 floats), path enumeration by re-execution; solver portfolio z3/cvc5 (vlib/smt.py)"},
        ],
        "checks": checks,
        "not_applicable": na,
        "notes": "Every check regenerates its encoding from /repo's working tree. Exit 0 = held on everything explored (known findings printed as KNOWN-FINDING lines), 1 = new violation (VIOLATION line + replay file), 3 = harness error (never on the unchanged tree).",
    }
    json.dump(man, open(os.path.join(ROOT, "MANIFEST.json"), "w"), indent=1)
    print("claimed:", [c["property_id"] for c in checks])
    print("not claimed:", [n["property_id"] for n in na])


NA = {}

if __name__ == "__main__":
    main()
