#!/usr/bin/env python3
"""Rebuild seeded/SUMMARY.md from the meta.json files (never run by a check)."""
import glob
import json
import os

ROOT = os.path.dirname(os.path.dirname(os.path.abspath(__file__)))
rows = []
for d in sorted(glob.glob(os.path.join(ROOT, "seeded", "C??-*"))):
    m = json.load(open(os.path.join(d, "meta.json")))
    name = os.path.basename(d)
    k = int(name.split("-")[1])
    chk = m.get("my_check", {})
    conf = m.get("confirmed_by_me", {})
    rows.append((name, m.get('round', 1 if k <= 2 else (2 if k <= 4 else 3)), m.get("breaks", "")[:150].replace("|", "/").replace("\n", " "),
                 m.get("needs", "")[:130].replace("|", "/").replace("\n", " "), chk.get("violations", 0), chk.get("exit_code"),
                 chk.get("first_replays", "")[:90], conf.get("tests_with_change", ""), conf.get("demo_exit_without_change"),
                 conf.get("demo_exit_with_change"), m.get("first_run_of_existing_check", "")))
out = ["# Seeded changes", "",
       "Each directory holds `patch.diff` (against /repo HEAD), the sub-agent's `demo.py` and `meta.json` (what it breaks, what it "
       "needs to manifest, what was run to confirm it, and what the property's quick check reported against a scratch worktree "
       "with the change applied).  Seeds `-1`/`-2` are round 1 (agents worked on the pinned commit), `-3`/`-4` round 2 and "
       "`-5`/`-6` round 3 (agents worked on /repo HEAD with the fix: commits, were told which ideas the earlier rounds had used "
       "and asked for changes different in kind and as subtle as possible).  Every seed is confirmed (suite 123 passed with the change, demo exits 0 without and "
       "non-zero with it).  `first run` = what the check of that property reported *before* any strengthening prompted by the "
       "seed; the `violations` column is the check as committed now.", "",
       f"Totals: {len(rows)} seeds; reported by the checks as committed: {sum(1 for r in rows if r[4])}.  Caught on the first "
       f"run - round 2: {sum(1 for r in rows if r[1] == 2 and str(r[10]).startswith('caught'))} of "
       f"{sum(1 for r in rows if r[1] == 2)}; round 3: {sum(1 for r in rows if r[1] == 3 and str(r[10]).startswith('caught'))} of "
       f"{sum(1 for r in rows if r[1] == 3)}.", "",
       "| seed | round | change | needs | first run | violations now | first obligations that fire |", "|---|---|---|---|---|---|---|"]
for r in rows:
    out.append(f"| {r[0]} | {r[1]} | {r[2]} | {r[3]} | {r[10] or ('caught' if r[1] == 1 else '')} | {r[4]} | {r[6]} |")
open(os.path.join(ROOT, "seeded", "SUMMARY.md"), "w").write("\n".join(out) + "\n")
print(len(rows), "seeds")
