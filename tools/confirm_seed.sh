#!/bin/bash
# tools/confirm_seed.sh <PROP> <k> [patchfile]  -- confirm a seeded change in a scratch worktree of /repo HEAD and
# run the property's quick check against that worktree.  Writes seeded/<PROP>-<k>/{patch.diff,demo.py,meta.json}.
PROP=$1; K=$2; IN=/verif/seeded/_incoming${SEED_ROUND:+$SEED_ROUND}/$PROP
OK=$K; [ -n "$SEED_ROUND" ] && OK=$((K + 2*(SEED_ROUND-1)))
PATCH=${3:-$IN/patch$K.diff}
WT=/tmp/seedwt-$PROP-$K-r${SEED_ROUND:-1}
OUT=/verif/seeded/$PROP-$OK
rm -rf $WT; git -C /repo worktree prune; git -C /repo worktree add --detach $WT HEAD >/dev/null 2>&1 || { echo "worktree failed"; exit 9; }
cd $WT
run_demo() { PYTHONPATH=$WT/src timeout 600 /venv/bin/python $IN/demo$K.py >/tmp/seed-demo-$PROP-$K.log 2>&1; echo $?; }
DEMO_CLEAN=$(run_demo)
if ! git apply --3way "$PATCH" >/dev/null 2>&1; then git reset -q; git checkout -- .; if ! git apply "$PATCH" >/dev/null 2>&1; then echo "$PROP-$K APPLY-FAILED"; cd /; git -C /repo worktree remove --force $WT; exit 8; fi; fi
git reset -q
TESTS=$(PYTHONPATH=$WT/src /venv/bin/python -m pytest -q -p no:cacheprovider -o addopts="" tests 2>&1 | tail -1)
DEMO_PATCHED=$(run_demo)
mkdir -p $OUT /tmp/seed-ev-$PROP-$K
cd /verif
CHECK_OUT=$(VERIF_REPO=$WT VERIF_EVIDENCE_DIR=/tmp/seed-ev-$PROP-$K VERIF_REPLAY_DIR=/tmp/seed-ev-$PROP-$K/replays ./check $PROP --tier quick 2>&1); RC=$?
VIOLS=$(echo "$CHECK_OUT" | grep -c "^VIOLATION")
FIRST=$(echo "$CHECK_OUT" | grep "^VIOLATION" | head -3 | sed 's/.*replay=.*replays\///' | tr '\n' ' ')
git -C $WT diff > $OUT/patch.diff
cp $IN/demo$K.py $OUT/demo.py
python3 - "$PROP" "$K" "$IN/meta$K.json" "$OUT/meta.json" "$DEMO_CLEAN" "$DEMO_PATCHED" "$TESTS" "$RC" "$VIOLS" "$FIRST" <<'PY'
import json, sys
prop, k, src, dst, dc, dp, tests, rc, viols, first = sys.argv[1:11]
try:
    m = json.load(open(src))
except Exception:
    m = {}
meta = {"property": prop, "breaks": m.get("summary", ""), "needs": m.get("needs", ""), "files": m.get("files", []),
        "origin": "independent sub-agent given only the property text and a scratch worktree of the pinned commit",
        "confirmed_by_me": {"worktree": "scratch worktree of /repo HEAD (with the fix: commits)", "tests_with_change": tests,
                             "demo_exit_without_change": int(dc), "demo_exit_with_change": int(dp)},
        "my_check": {"command": f"VERIF_REPO=<worktree> ./check {prop} --tier quick", "exit_code": int(rc), "violations": int(viols),
                     "first_replays": first.strip()}}
json.dump(meta, open(dst, "w"), indent=1)
print(f"{prop}-{k} (round {__import__('os').environ.get('SEED_ROUND','1')}): demo clean={dc} patched={dp} | tests: {tests} | check rc={rc} violations={viols} {first}")
PY
cd /; git -C /repo worktree remove --force $WT; rm -rf /tmp/seed-ev-$PROP-$K
