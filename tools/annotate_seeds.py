#!/usr/bin/env python3
"""Add round / origin / first-run information to the seed metas (never run by a check).  The first-run results are the
reports of the confirmation runs made BEFORE any strengthening prompted by the round."""
import glob
import json
import os
import re

ROOT = os.path.dirname(os.path.dirname(os.path.abspath(__file__)))


def parse(path, rnd):
    out = {}
    if not os.path.exists(path):
        return out
    for ln in open(path):
        m = re.match(r"(C\d\d)-(\d) \(round (\d)\): .*check rc=(\d+) violations=(\d+)", ln)
        if m and int(m.group(3)) == rnd:
            out[(m.group(1), int(m.group(2)))] = (int(m.group(4)), int(m.group(5)))
        m = re.match(r"(C\d\d)-(\d) APPLY-FAILED", ln)
        if m:
            out[(m.group(1), int(m.group(2)))] = ("apply-failed", 0)
    return out


FIRST = {2: parse(ROOT + "/seeded/first_run_round2.txt", 2), 3: parse(ROOT + "/seeded/first_run_round3.txt", 3)}
NOTES3 = {
    ("C11", 2): "missed (the only line printed was evaluator/BinOp, an alarm of the check itself: int.bit_length, introduced by fix "
                "f28f4e8, was not on the whitelist - corrected); then added: whole-script shapes, more positions, splat arguments",
    ("C11", 1): "caught (sites/* timing; the evaluator/BinOp line printed next to it was an alarm of the check itself, corrected)",
    ("C07", 2): "patch no longer applies: fix 407dfb4 (logical-line joining) rewrote the same code site while the round was being confirmed",
}
ADDED = {
    2: {"C01": "ctx product (strings / remove_dup statements)", "C02": "call-shape variants; comprehension shadowing",
        "C03": "sibling-arm and shadowing folds", "C04": "placement/* (actuator commands in every block context)",
        "C05": "rebind_* and persist/* families", "C06": "ctx product through clang; str_vars", "C07": "accounted/*",
        "C08": "call re-spellings", "C09": "mem/ctx/* list manipulations", "C10": "sorted-with-key ties fork; case-twin names",
        "C11": "regex/*; full state snapshot + state-exercising prefix",
        "C13": "prior-state lemma, real-directory audit; violations not hidden by harness errors",
        "C14": "constructor-argument variants", "C15": "wrapping clock; sample-count claim", "C16": "last-sounded claims",
        "C17": "alignment spellings; value/max/width symbolic", "C18": "two displays", "C19": "scalar-kind fade obligations",
        "C20": "serial text lemma; math stand-in"},
    3: {"C01": "derived_after_loop in the prologue; bool/int returns", "C02": "recursion", "C03": "chained comparisons; derived constants",
        "C04": "tracked colour via next operation; getters in variables", "C05": "prologue compound variables",
        "C06": "two-type helper scripts (weak: an already failing script fails differently)", "C07": "accounted/stmt (elif-pass)",
        "C08": "two-call compositionality oracle", "C09": "assign of unknown lengths; returned parameter lists", "C10": "corpus history",
        "C13": "brace / odd ports", "C14": "Button / animated-LCD kinds in the parser link; libraries compared as rendered into platformio.ini",
        "C15": "tuple of two reads; two sensors", "C16": "tune-name spellings; buzzer re-binding",
        "C17": "empty texts; labels as long as the row", "C18": "wrapping-clock rate; registry history",
        "C20": "integer-level button signal"},
}
for d in sorted(glob.glob(ROOT + "/seeded/C??-*")):
    name = os.path.basename(d)
    prop, k = name.split("-")
    k = int(k)
    mp = os.path.join(d, "meta.json")
    m = json.load(open(mp))
    if k <= 2:
        m["round"] = 1
        m.setdefault("first_run_of_existing_check", "see DESIGN.md section 6 (round 1)")
    else:
        rnd = 2 if k <= 4 else 3
        kk = k - 2 * (rnd - 1)
        fr = FIRST[rnd].get((prop, kk))
        m["round"] = rnd
        m["origin"] = ("independent sub-agent given only the property text, one-line summaries of the ideas used in earlier rounds and a "
                       "scratch worktree of /repo HEAD (with the fix: commits); asked for a change different in kind and as subtle as possible")
        if rnd == 3 and (prop, kk) in NOTES3:
            m["first_run_of_existing_check"] = NOTES3[(prop, kk)]
        elif fr is None:
            m["first_run_of_existing_check"] = "not recorded"
        elif fr[0] == "apply-failed":
            m["first_run_of_existing_check"] = "patch did not apply"
        elif fr[1] > 0:
            m["first_run_of_existing_check"] = "caught"
        else:
            m["first_run_of_existing_check"] = "missed" + (f" - then added: {ADDED[rnd][prop]}" if prop in ADDED[rnd] else " - not addressed")
    json.dump(m, open(mp, "w"), indent=1)
print("annotated")
