#!/usr/bin/env python3
"""One-off curation helper (never run by a check): turn the current replay files of a property into
known_findings.json entries using a hand-written root-cause table.  Usage: tools/file_findings.py C01"""
import glob
import json
import os
import sys

ROOT = os.path.dirname(os.path.dirname(os.path.abspath(__file__)))
CAUSES = {
    "C01": [
        (("expr/abs_call", "expr/min_call", "expr/max_call"),
         "abs/min/max are emitted as the Arduino macros: an operand with a side effect (a sensor read) is evaluated twice"),
        (("expr/chain_call",), "a chained comparison lo < f() < hi is emitted as (lo < f() && f() < hi): the middle operand is evaluated twice"),
        (("expr/bool_print", "expr/bool_str"), "bool values are rendered 1/0 on the device, True/False by CPython"),
        (("expr/floordiv", "expr/mod", "expr/prec7", "expr/prec8", "stmt/aug_floordiv", "stmt/aug_mod"),
         "// and % are emitted as C '/' and '%' (truncate toward zero); Python floors (differs when signs differ)"),
        (("expr/truediv", "expr/round_div", "expr/mixed_cmp"), "int / int is emitted as C integer division; Python's / is true division"),
        (("expr/land_val", "expr/lor_val"), "`a and b` / `a or b` are emitted as && / || (0 or 1); Python yields one of the operands"),
        (("stmt/fn_local_shadow",), "an assignment inside a helper function to a name that is also a global is emitted as an assignment to the global (Python: a new local)"),
        (("stmt/persist_list",), "len(xs) is folded to the transpile-time length although xs is appended to at run time in the main loop"),
    ],
}


CAUSES["C02"] = [
    (("types/int_then_float", "types/float_in_branch", "types/float_in_loop", "types/aug_float", "types/aug_truediv",
      "types/global_int_loop_float", "types/global_acc_float", "types/param_copy_rebound", "types/param_rebound_in_branch", "types/loop_int_then_aug_float"),
     "the first assignment fixes the C type: a name first bound to an int keeps `int` when a float is assigned later (value truncated)"),
    (("types/branch_first_int",), "a variable hoisted out of if/else takes the type of the first branch (int) although the other branch assigns a float"),
    (("types/int_div_result", "types/local_float"), "the result of int / int is inferred as int (Python: float)"),
    (("types/abs_float", "types/min_mixed"), "abs()/min() of a float operand is inferred as int"),
    (("types/param_float", "types/param_two_sites"), "a function parameter that receives a float at some call site is declared int (argument truncated)"),
    (("types/swap_types", "types/shift_types"), "tuple assignment keeps the old C types of the targets: a float moved into an int-typed name is truncated"),
]


CAUSES["C03"] = [
    (("fold/const_div", "fold/const_floor", "fold/const_mod"),
     "a constant initialiser using //, % or / is emitted as the C expression (truncating / integer division) instead of Python's value"),
    (("fold/len_append", "fold/len_remove", "fold/len_str_reassign"),
     "len(name) is folded from the transpile-time environment although the value is changed in a branch / loop body / at run time"),
    (("fold/flash_pattern_name_mut",), "flash_pattern(name) bakes in the list as known at transpile time although it is appended to in a branch at run time"),
]


CAUSES["C03"] += [
    (("fold/sibling_list_len_else",), "an append in one arm of an if/else mutates the transpile-time list in place, so len(name) folded in the sibling arm already counts it"),
    (("fold/local_shadows_const",), "an assignment inside a helper function to a name that is also a global is emitted as an assignment to the global (Python: a new local); the global constant read later has changed"),
]


CAUSES["C04"] = [
    (("step/DCMotor.backward", "step/DCMotor.set_speed_rt", "step/history/DCMotor"),
     "a non-zero speed whose duty rounds to 0 (|speed| < 1/510) makes the firmware report mode 'coast'; the host model reports 'drive'"),
    (("step/RGBLed.fade_2", "step/RGBLed.fade_kw", "step/RGBLed.fade_rt", "step/RGBLed.fade_3_lit", "step/history/RGBLed"),
     "RGB fade steps that fall exactly on .5 are rounded half-up (toward +inf for the integer formula) on the device, half-to-even by the host's round()"),
]


CAUSES["C04"].append((("step/getter_vars/DCMotor",), "motor.get_speed() / get_applied_speed() stored in a variable: the variable is declared int, so the float speed is truncated (the same query printed directly is right)"))


CAUSES["C05"] = [
    (("split/rebind_servo",), "a Servo name bound in the prologue and bound again to another pin at the top of the loop body keeps driving the first pin: the second declaration is ignored (one name-keyed Servo object, attached once)"),
    (("split/led_in_loop_stateful",), "a device declared at the top of the loop body keeps its state across passes on the device; Python re-creates the object (state reset) every pass"),
]


CAUSES["C06"] = [
    (("compile/expr/pow2", "compile/feature/pow_op"), "the ** operator is emitted verbatim (not C++)"),
    (("compile/feature/fn_list_param", "compile/feature/fn_str_param"), "function parameters are declared int whatever is passed (list / str argument does not compile)"),
    (("compile/feature/get_mode_var",), "m.get_mode() is inferred as int although the emitted state variable is a String"),
    (("compile/feature/loop_var_after", "compile/stmt/for_after_value"), "a for-range variable read after its loop is not declared in the enclosing scope"),
    (("compile/feature/try_except_as", "compile/feature/try_except_named"), "`except SomeError:` is emitted as `catch (SomeError &)` with no such C++ type"),
    (("compile/feature/undeclared_receiver",), "a method call on a name that was never declared as a device emits undeclared state variables"),
]


CAUSES["C06"].append((("compile/types/param_two_sites", "compile/types/recursive_float_param"),
                      "a helper called with an int and with a float literal is emitted as int/float overloads; the call with a "
                      "double literal (`scale(0.5)`) is then ambiguous in C++ and the sketch does not compile"))


CAUSES["C06"].append((("compile/feature/fn_two_types_forward",), "a call to a helper defined further down the file is typed with int parameters whatever is passed (a str argument does not compile)"))
CAUSES["C06"].append((("compile/feature/fn_param_reassigned_two_types", "compile/feature/fn_two_types_toplevel"), "a helper instantiated for two argument types: the second variant does not compile (ambiguous or mistyped overload)"))


CAUSES["C09"] = [
    (("mem/comprehension", "mem/local_list", "mem/list_in_function", "mem/reassign_literal"),
     "a list created in the main-loop body or in a function (literal, comprehension, re-assignment) is a fresh new[] on every pass and is never deleted: the heap grows although the python program's live data is constant"),
    (("mem/alias_decl",), "`b = a` for lists copies the {data,size} struct: after a.append() frees and re-allocates the buffer, b still points at the freed block (use after free)"),
]


def main():
    prop = sys.argv[1]
    path = os.path.join(ROOT, "known_findings.json")
    data = json.load(open(path)) if os.path.exists(path) else {"findings": []}
    have = set()
    for f in data["findings"]:
        if f.get("status") != "known":
            continue
        wc = f.get("witness_class")
        for w in (wc if isinstance(wc, list) else [wc]):
            have.add((f["property"], f["key"], w))
    rdir = os.environ.get("VERIF_REPLAY_DIR", os.path.join(ROOT, "replays"))
    for f in sorted(glob.glob(os.path.join(rdir, prop, "*.json"))):
        w = json.load(open(f))
        oid = w["obligation"]
        wc = (w.get("witness") or {}).get("class")
        what = None
        for prefixes, text in CAUSES.get(prop, []):
            if any(oid.startswith(p) for p in prefixes):
                what = text
        if what is None:
            print("no root cause for", oid)
            continue
        if (prop, oid, wc) in have:
            continue
        entry = {"property": prop, "key": oid, "witness_class": wc, "status": "known", "what": what,
                 "example_inputs": (w.get("witness") or {}).get("inputs")}
        data["findings"].append(entry)
        print("filed", oid)
    json.dump(data, open(path, "w"), indent=1)


if __name__ == "__main__":
    main()
