"""fwsym - bounded symbolic executor for the LLVM IR of emitted sketches.

Values are concrete Python numbers whenever possible and z3 terms otherwise
(BitVec for iN, FP for float/double).  Paths are explored depth first with one
incremental z3 solver (push/pop).  Environment calls are handlers that append
events or create fresh symbolic inputs.  Loop bounds are *unwinding assertions*:
a path that exceeds them is reported as truncated, never as success.
"""
from __future__ import annotations

import struct
import sys
import time
from typing import Callable, Dict, List, Optional

import z3

from . import smt
from .irparse import (Const, Function, IRUnsupported, Instr, Local, Module, Ty,
                      I1, I8, I32, I64, FLOAT, DOUBLE, VOID)

sys.setrecursionlimit(20000)

RNE = z3.RNE()
RTZ = z3.RTZ()
F32 = z3.Float32()
F64 = z3.Float64()


# ------------------------------------------------------------------ values
class BV:
    __slots__ = ("w", "v")

    def __init__(self, w, v):
        self.w = w
        self.v = v  # python int (unsigned, masked) or z3 BitVecRef

    @property
    def concrete(self):
        return isinstance(self.v, int)

    def z(self):
        return z3.BitVecVal(self.v, self.w) if isinstance(self.v, int) else self.v

    def signed(self):
        v = self.v
        return v - (1 << self.w) if v >> (self.w - 1) else v

    def __repr__(self):
        return f"i{self.w}:{self.signed() if self.concrete else self.v}"


class FP:
    __slots__ = ("k", "v")

    def __init__(self, k, v):
        self.k = k  # 32 or 64
        self.v = v  # python float (already rounded to k) or z3 FPRef

    @property
    def concrete(self):
        return isinstance(self.v, float)

    def z(self):
        if isinstance(self.v, float):
            return z3.FPVal(self.v, F32 if self.k == 32 else F64)
        return self.v

    def __repr__(self):
        return f"f{self.k}:{self.v}"


class Ptr:
    __slots__ = ("obj", "off")

    def __init__(self, obj, off):
        self.obj = obj
        self.off = off  # python int or z3 BitVec(64)

    def __repr__(self):
        return f"&{self.obj}+{self.off}"


class Fn:
    __slots__ = ("name",)

    def __init__(self, name):
        self.name = name


NULL = Ptr(0, 0)


def narrow_bits(lo, hi, width):
    """n if [lo,hi] == [0, 2^n - 1] with n < width, else None"""
    if lo == 0 and hi is not None and hi > 0 and (hi + 1) & hi == 0:
        n = hi.bit_length()
        if n < width:
            return n
    return None


def mask(w):
    return (1 << w) - 1


def r32(x: float) -> float:
    try:
        return struct.unpack("<f", struct.pack("<f", x))[0]
    except OverflowError:
        return float("inf") if x > 0 else float("-inf")


def mk_bv(w, v):
    if isinstance(v, int):
        return BV(w, v & mask(w))
    return BV(w, v)


def simp(e):
    return z3.simplify(e)


def bv_from_z3(e):
    e = simp(e)
    if z3.is_bv_value(e):
        return BV(e.size(), e.as_long())
    return BV(e.size(), e)


FP_SYMBOLIC = [False]


def fp_from_z3(e, k):
    e = simp(e)
    if z3.is_fp_value(e) and not e.isNaN():
        bits = simp(z3.fpToIEEEBV(e))
        if z3.is_bv_value(bits):
            n = bits.as_long()
            if k == 32:
                return FP(32, struct.unpack("<f", struct.pack("<I", n))[0])
            return FP(64, struct.unpack("<d", struct.pack("<Q", n))[0])
    FP_SYMBOLIC[0] = True
    return FP(k, e)


def bool_of(bv: BV):
    """z3 Bool for an i1 value (symbolic)."""
    return simp(bv.v == z3.BitVecVal(1, 1))


def bv_of_bool(b):
    b = simp(b)
    if z3.is_true(b):
        return BV(1, 1)
    if z3.is_false(b):
        return BV(1, 0)
    return BV(1, z3.If(b, z3.BitVecVal(1, 1), z3.BitVecVal(0, 1)))


# ------------------------------------------------------------------ memory
class MemObj:
    __slots__ = ("size", "cells", "fills", "live", "kind", "name", "shared")

    def __init__(self, size, kind, name=""):
        self.size = size
        self.cells = {}  # off -> (value, nbytes)
        self.fills = []  # (start, end, byte)
        self.live = True
        self.kind = kind  # global stack heap const
        self.name = name
        self.shared = False

    def clone(self):
        o = MemObj(self.size, self.kind, self.name)
        o.cells = dict(self.cells)
        o.fills = list(self.fills)
        o.live = self.live
        return o


class Frame:
    __slots__ = ("fn", "regs", "block", "prev", "ip", "allocas", "ret_dest", "visits", "ret_cont")

    def __init__(self, fn):
        self.fn = fn
        self.regs = {}
        self.block = fn.order[0]
        self.prev = None
        self.ip = 0
        self.allocas = []
        self.ret_dest = None
        self.visits = {}
        self.ret_cont = None

    def clone(self):
        f = Frame.__new__(Frame)
        f.fn = self.fn
        f.regs = dict(self.regs)
        f.block = self.block
        f.prev = self.prev
        f.ip = self.ip
        f.allocas = list(self.allocas)
        f.ret_dest = self.ret_dest
        f.visits = dict(self.visits)
        f.ret_cont = self.ret_cont
        return f


class State:
    def __init__(self):
        self.mem: Dict[int, MemObj] = {}
        self.frames: List[Frame] = []
        self.pc: List = []
        self.events: List = []
        self.flags: List = []  # monitor findings (kind, detail)
        self.notes: List = []  # imprecision / truncation notes
        self.next_obj = 1
        self.inputs: List = []  # (name, z3var)
        self.in_count: Dict = {}
        self.tokens: Dict[int, tuple] = {}
        self.heap_live = 0
        self.clock_last = None
        self.clock_pending = 0
        self.steps = 0
        self.user = {}

    def clone(self):
        s = State.__new__(State)
        s.mem = {k: v.clone() for k, v in self.mem.items()}
        s.frames = [f.clone() for f in self.frames]
        s.pc = list(self.pc)
        s.events = list(self.events)
        s.flags = list(self.flags)
        s.notes = list(self.notes)
        s.next_obj = self.next_obj
        s.inputs = list(self.inputs)
        s.in_count = dict(self.in_count)
        s.tokens = dict(self.tokens)
        s.heap_live = self.heap_live
        s.clock_last = self.clock_last
        s.clock_pending = self.clock_pending
        s.steps = self.steps
        s.user = dict(self.user)
        return s

    def alloc(self, size, kind, name=""):
        oid = self.next_obj
        self.next_obj += 1
        self.mem[oid] = MemObj(size, kind, name)
        return oid


class ForkRequest(Exception):
    def __init__(self, conds):
        self.conds = conds


class PathEnd(Exception):
    def __init__(self, reason):
        self.reason = reason


class PathResult:
    def __init__(self, state, status):
        self.state = state
        self.status = status  # ok | truncated:<why> | unsupported:<why>
        self.pc = state.pc
        self.events = state.events
        self.flags = state.flags
        self.notes = state.notes


TOK_BASE = 0x100000


class Executor:
    def __init__(self, mod: Module, *, max_block_visits=64, max_steps=400000,
                 check_ub=False, solver_timeout_ms=20000, max_paths=4000):
        self.mod = mod
        self.max_block_visits = max_block_visits
        self.max_steps = max_steps
        self.check_ub = check_ub
        self.max_paths = max_paths
        self.solver = z3.Solver()
        self.solver.set("timeout", solver_timeout_ms)
        self.solver_timeout_ms = solver_timeout_ms
        self.cur_state = None
        self.force_fresh = False
        self.handlers: Dict[str, Callable] = {}
        self.global_objs: Dict[str, int] = {}
        self.obj_names: Dict[int, str] = {}
        self.stats = {"queries": 0, "solver_s": 0.0, "instrs": 0, "paths": 0, "unknown": 0, "forks": 0}
        self._const_cache = {}
        self.results: List[PathResult] = []
        install_default_handlers(self)

    # ---------------------------------------------------------- solver
    def _query(self, extra, want_model, timeout_ms=None):
        """BV-only: incremental solver (push/pop).  Once FP terms exist: fresh portfolio query over the
        current path condition (z3 tactic pipeline, cvc5/z3 binaries on unknown)."""
        t = time.time()
        try:
            # the incremental solver is used as long as no floating-point term is part of the query: FP values that only
            # flow into events (never into a branch condition) do not force the slow fresh-solver route
            need_fresh = self.force_fresh or (FP_SYMBOLIC[0] and self.cur_state is not None and (
                any(smt.has_fp(c) for c in extra) or any(smt.has_fp(c) for c in self.cur_state.pc)))
            if need_fresh and self.cur_state is not None:
                r, m = smt.solve_sliced(list(self.cur_state.pc), list(extra), timeout_ms=timeout_ms or self.solver_timeout_ms,
                                        model_vars=[v for _, v in self.cur_state.inputs] if want_model else None)
                return r, m
            self.solver.push()
            try:
                for e in extra:
                    self.solver.add(e)
                r = str(self.solver.check())
                m = None
                if r == "sat" and want_model:
                    zm = self.solver.model()
                    m = {n: smt._val(zm.eval(v, model_completion=True)) for n, v in self.cur_state.inputs}
                return r, m
            finally:
                self.solver.pop()
        finally:
            self.stats["queries"] += 1
            self.stats["solver_s"] += time.time() - t

    def check(self, *extra):
        r, _ = self._query(extra, False)
        if r == "unknown":
            self.stats["unknown"] += 1
        return r

    def model_for(self, *extra, timeout_ms=None):
        """-> (status, {input name: python value})"""
        r, m = self._query(extra, True, timeout_ms)
        if r == "unknown":
            self.stats["unknown"] += 1
        return r, m

    def eval_under(self, st, assignment, term):
        subs = [(v, smt.to_z3_value(v, assignment[n])) for n, v in st.inputs if n in assignment]
        return simp(z3.substitute(term, *subs)) if subs else simp(term)

    def concretize(self, state, bv: BV, limit=64):
        """Return a python int for bv under the current path condition, forking if needed."""
        if bv.concrete:
            return bv.v
        r, m = self.model_for()
        if r != "sat":
            raise PathEnd("infeasible-or-unknown-at-concretize")
        kv = self.eval_under(state, m, bv.v)
        if not z3.is_bv_value(kv):
            ss = z3.Solver()
            for c in state.pc:
                ss.add(c)
            if str(ss.check()) != "sat":
                raise PathEnd("infeasible-or-unknown-at-concretize")
            kv = ss.model().eval(bv.v, model_completion=True)
        k = kv.as_long()
        kz = z3.BitVecVal(k, bv.w)
        if self.check(bv.v != kz) == "unsat":
            return k
        cnt = state.user.get("_conc", 0)
        if cnt > limit:
            raise IRUnsupported("too many values at concretize")
        state.user["_conc"] = cnt + 1
        raise ForkRequest([bv.v == kz, bv.v != kz])

    # ---------------------------------------------------------- init
    def init_state(self) -> State:
        st = State()
        mod = self.mod
        for name, g in mod.globals.items():
            size = mod.size_of(g.ty) if not g.external else max(8, self._safe_size(g.ty))
            oid = st.alloc(size, "const" if g.constant else "global", name)
            self.global_objs[name] = oid
            self.obj_names[oid] = name
        for name, g in mod.globals.items():
            oid = self.global_objs[name]
            if g.init is not None:
                self._write_const(st, oid, 0, g.ty, g.init)
            else:
                st.mem[oid].fills.append((0, st.mem[oid].size, 0))
        return st

    def _safe_size(self, ty):
        try:
            return self.mod.size_of(ty)
        except IRUnsupported:
            return 8

    def _write_const(self, st, oid, off, ty, c: Const):
        mod = self.mod
        rty = mod.resolve(ty)
        obj = st.mem[oid]
        if c.kind == "zero":
            obj.fills.append((off, off + mod.size_of(rty), 0))
            return
        if c.kind == "undef":
            return
        if rty.kind == "array":
            es = mod.size_of(rty.elem)
            if c.kind == "cstr":
                for i, b in enumerate(c.val):
                    obj.cells[off + i] = (BV(8, b), 1)
                return
            for i, e in enumerate(c.val):
                self._write_const(st, oid, off + i * es, rty.elem, e)
            return
        if rty.kind == "struct":
            for i, e in enumerate(c.val):
                self._write_const(st, oid, off + mod.field_offset(rty, i), rty.fields[i], e)
            return
        v = self.const_value(c, ty)
        obj.cells[off] = (v, mod.size_of(rty))

    # ---------------------------------------------------------- constants
    def const_value(self, c: Const, ty: Optional[Ty] = None):
        ty = ty or c.ty
        rty = self.mod.resolve(ty) if ty.kind == "named" else ty
        k = c.kind
        if k == "int":
            return BV(rty.bits, c.val & mask(rty.bits))
        if k == "float":
            if rty.kind == "float":
                return FP(32, r32(c.val))
            return FP(64, float(c.val))
        if k == "null":
            return NULL
        if k == "global":
            name = c.val
            if name in self.global_objs:
                return Ptr(self.global_objs[name], 0)
            if name in self.mod.functions:
                return Fn(name)
            raise IRUnsupported(f"unknown global @{name}")
        if k == "undef":
            if rty.kind == "int":
                return BV(rty.bits, 0)
            if rty.kind == "float":
                return FP(32, 0.0)
            if rty.kind == "double":
                return FP(64, 0.0)
            if rty.kind == "ptr":
                return NULL
            if rty.kind == "struct":
                return [self.const_value(Const(f, "undef"), f) for f in rty.fields]
            if rty.kind == "array":
                return [self.const_value(Const(rty.elem, "undef"), rty.elem) for _ in range(rty.count)]
            raise IRUnsupported("undef of " + repr(rty))
        if k == "zero":
            if rty.kind == "int":
                return BV(rty.bits, 0)
            if rty.kind == "float":
                return FP(32, 0.0)
            if rty.kind == "double":
                return FP(64, 0.0)
            if rty.kind == "ptr":
                return NULL
            if rty.kind == "struct":
                return [self.const_value(Const(f, "zero"), f) for f in rty.fields]
            if rty.kind == "array":
                return [self.const_value(Const(rty.elem, "zero"), rty.elem) for _ in range(rty.count)]
        if k == "struct":
            return [self.const_value(e) for e in c.val]
        if k == "array":
            return [self.const_value(e) for e in c.val]
        if k == "expr":
            op, ops, extra = c.val
            if op == "getelementptr":
                base = self.const_value(ops[0])
                idx = [self.const_value(i) for i in ops[1:]]
                return self.gep(base, extra["base_ty"], idx)
            if op in ("bitcast", "addrspacecast"):
                return self.const_value(ops[0])
            if op == "ptrtoint":
                p = self.const_value(ops[0])
                if p.obj == 0:
                    return mk_bv(extra["to"].bits, p.off)
                raise IRUnsupported("ptrtoint const")
            if op == "inttoptr":
                v = self.const_value(ops[0])
                if v.concrete and v.v == 0:
                    return NULL
                raise IRUnsupported("inttoptr const")
            raise IRUnsupported(f"const expr {op}")
        raise IRUnsupported(f"const kind {k}")

    # ---------------------------------------------------------- GEP
    def gep(self, base: Ptr, base_ty: Ty, idx: List[BV]) -> Ptr:
        mod = self.mod
        off = base.off
        cur = base_ty
        first = True
        for i in idx:
            if first:
                stride = mod.size_of(cur)
                off = self._off_add(off, i, stride)
                first = False
                continue
            rc = mod.resolve(cur)
            if rc.kind == "struct":
                if not i.concrete:
                    raise IRUnsupported("symbolic struct index")
                off = self._off_add_const(off, mod.field_offset(rc, i.v))
                cur = rc.fields[i.v]
            elif rc.kind == "array":
                stride = mod.size_of(rc.elem)
                off = self._off_add(off, i, stride)
                cur = rc.elem
            else:
                raise IRUnsupported(f"gep into {rc}")
        return Ptr(base.obj, off)

    @staticmethod
    def _off_add_const(off, k):
        if isinstance(off, int):
            return off + k
        return simp(off + z3.BitVecVal(k, 64))

    @staticmethod
    def _off_add(off, i: BV, stride: int):
        if i.concrete:
            d = i.signed() * stride
            if isinstance(off, int):
                return off + d
            return simp(off + z3.BitVecVal(d, 64))
        iz = i.v
        if i.w < 64:
            iz = z3.SignExt(64 - i.w, iz)
        elif i.w > 64:
            iz = z3.Extract(63, 0, iz)
        term = iz * z3.BitVecVal(stride, 64)
        if isinstance(off, int):
            return simp(term + z3.BitVecVal(off, 64))
        return simp(off + term)

    # ---------------------------------------------------------- memory access
    def _resolve_off(self, st, p: Ptr) -> int:
        if isinstance(p.off, int):
            return p.off
        b = BV(64, p.off)
        k = self.concretize(st, b)
        return k - (1 << 64) if k >> 63 else k

    def _obj_for(self, st, p: Ptr, nbytes, what):
        if p.obj == 0:
            st.flags.append(("null-deref", what))
            raise PathEnd("null-deref")
        obj = st.mem.get(p.obj)
        if obj is None:
            raise IRUnsupported("dangling object id")
        off = self._resolve_off(st, p)
        if not obj.live:
            st.flags.append(("use-after-free", f"{what} {obj.kind}:{obj.name}"))
            raise PathEnd("use-after-free")
        if off < 0 or off + nbytes > obj.size:
            st.flags.append(("out-of-bounds", f"{what} off={off} n={nbytes} size={obj.size} {obj.kind}:{obj.name}"))
            raise PathEnd("out-of-bounds")
        return obj, off

    def load(self, st, p: Ptr, ty: Ty):
        mod = self.mod
        rty = mod.resolve(ty)
        if rty.kind == "struct":
            return [self.load(st, Ptr(p.obj, self._off_add_const(p.off, mod.field_offset(rty, i))), f)
                    for i, f in enumerate(rty.fields)]
        if rty.kind == "array":
            es = mod.size_of(rty.elem)
            return [self.load(st, Ptr(p.obj, self._off_add_const(p.off, i * es)), rty.elem)
                    for i in range(rty.count)]
        n = mod.size_of(rty)
        obj, off = self._obj_for(st, p, n, "load")
        cell = obj.cells.get(off)
        if cell is not None:
            v, cn = cell
            if cn == n and self._kind_ok(v, rty):
                return v
            if cn == n:
                return self._reinterpret(v, rty)
            raise IRUnsupported(f"load size mismatch {cn} vs {n} at {obj.name}+{off}")
        for (s, e, b) in reversed(obj.fills):
            if s <= off and off + n <= e:
                if b != 0:
                    raise IRUnsupported("nonzero fill read")
                return self.const_value(Const(rty, "zero"), rty)
        # partially overlapping cell?
        for o2, (v2, n2) in obj.cells.items():
            if o2 < off + n and off < o2 + n2:
                raise IRUnsupported(f"partial overlap load at {obj.name}+{off}")
        st.flags.append(("uninit-read", f"{obj.kind}:{obj.name}+{off}"))
        return self.fresh_of(st, rty, "uninit")

    @staticmethod
    def _kind_ok(v, rty):
        if rty.kind == "int":
            return isinstance(v, BV) and v.w == rty.bits
        if rty.kind == "float":
            return isinstance(v, FP) and v.k == 32
        if rty.kind == "double":
            return isinstance(v, FP) and v.k == 64
        if rty.kind == "ptr":
            return isinstance(v, (Ptr, Fn))
        return False

    def _reinterpret(self, v, rty):
        if isinstance(v, BV) and rty.kind == "int" and rty.bits < v.w:
            # e.g. i8 store read as i1? not expected
            raise IRUnsupported("narrow reinterpret")
        if isinstance(v, Ptr) and rty.kind == "int" and v.obj == 0:
            return mk_bv(rty.bits, v.off)
        if isinstance(v, BV) and rty.kind == "ptr" and v.concrete and v.v == 0:
            return NULL
        raise IRUnsupported(f"reinterpret {v} as {rty}")

    def store(self, st, p: Ptr, ty: Ty, v):
        mod = self.mod
        rty = mod.resolve(ty)
        if rty.kind == "struct":
            for i, f in enumerate(rty.fields):
                self.store(st, Ptr(p.obj, self._off_add_const(p.off, mod.field_offset(rty, i))), f, v[i])
            return
        if rty.kind == "array":
            es = mod.size_of(rty.elem)
            for i in range(rty.count):
                self.store(st, Ptr(p.obj, self._off_add_const(p.off, i * es)), rty.elem, v[i])
            return
        n = mod.size_of(rty)
        obj, off = self._obj_for(st, p, n, "store")
        if obj.kind == "const":
            st.flags.append(("write-to-const", obj.name))
            raise PathEnd("write-to-const")
        # remove overlapping cells of different geometry
        c = obj.cells.get(off)
        if c is None or c[1] != n:
            for o2 in [o for o, (vv, nn) in obj.cells.items() if o < off + n and off < o + nn]:
                del obj.cells[o2]
        obj.cells[off] = (v, n)

    def memcpy(self, st, dst: Ptr, src: Ptr, n: int):
        if n == 0:
            return
        sobj, soff = self._obj_for(st, src, n, "memcpy-src")
        dobj, doff = self._obj_for(st, dst, n, "memcpy-dst")
        cells = [(o, c) for o, c in sobj.cells.items() if soff <= o and o + c[1] <= soff + n]
        fills = [(max(s, soff), min(e, soff + n), b) for (s, e, b) in sobj.fills if s < soff + n and soff < e]
        for o in [o for o, (vv, nn) in dobj.cells.items() if o < doff + n and doff < o + nn]:
            del dobj.cells[o]
        # destination bytes not covered become whatever the source had (fills) or uninit
        dobj.fills = [f for f in dobj.fills if not (doff <= f[0] and f[1] <= doff + n)]
        clipped = []
        for (s, e, b) in dobj.fills:
            if s < doff + n and doff < e:
                if s < doff:
                    clipped.append((s, doff, b))
                if e > doff + n:
                    clipped.append((doff + n, e, b))
            else:
                clipped.append((s, e, b))
        dobj.fills = clipped
        for (s, e, b) in fills:
            dobj.fills.append((s - soff + doff, e - soff + doff, b))
        for o, c in cells:
            dobj.cells[o - soff + doff] = c

    def memset(self, st, dst: Ptr, byte: int, n: int):
        if n == 0:
            return
        dobj, doff = self._obj_for(st, dst, n, "memset")
        for o in [o for o, (vv, nn) in dobj.cells.items() if o < doff + n and doff < o + nn]:
            del dobj.cells[o]
        dobj.fills.append((doff, doff + n, byte))

    def read_cstr(self, st, p: Ptr, limit=256) -> List:
        out = []
        for i in range(limit):
            b = self.load(st, Ptr(p.obj, self._off_add_const(p.off, i)), I8)
            if b.concrete and b.v == 0:
                return out
            out.append(b)
        raise IRUnsupported("unterminated C string")

    # ---------------------------------------------------------- fresh values
    def fresh_of(self, st, rty, tag):
        n = st.in_count.get(("fresh", tag), 0)
        st.in_count[("fresh", tag)] = n + 1
        name = f"{tag}_{n}"
        if rty.kind == "int":
            return BV(rty.bits, z3.BitVec(name, rty.bits))
        if rty.kind == "float":
            return FP(32, z3.FP(name, F32))
        if rty.kind == "double":
            return FP(64, z3.FP(name, F64))
        if rty.kind == "ptr":
            return NULL
        raise IRUnsupported("fresh of " + repr(rty))

    def new_input(self, st, kind, key, width, lo=None, hi=None):
        """Create (or re-create by name) the k-th input of (kind,key).  A range 0..2^n-1 is encoded
        structurally (an n-bit variable, zero-extended) so that upper bits are constants for the solver."""
        k = st.in_count.get((kind, key), 0)
        st.in_count[(kind, key)] = k + 1
        name = f"in_{kind}_{key}_{k}"
        nb = narrow_bits(lo, hi, width)
        if nb is not None:
            var = z3.BitVec(name, nb)
            st.inputs.append((name, var))
            return BV(width, z3.ZeroExt(width - nb, var) if nb < width else var)
        var = z3.BitVec(name, width)
        st.inputs.append((name, var))
        if lo is not None:
            self.assume(st, z3.UGE(var, z3.BitVecVal(lo, width)))
        if hi is not None:
            self.assume(st, z3.ULE(var, z3.BitVecVal(hi, width)))
        return BV(width, var)

    def assume(self, st, cond):
        st.pc.append(cond)
        self.solver.add(cond)

    # ---------------------------------------------------------- running
    def call_function(self, st: State, name: str, args: list):
        """Push a frame for name (must be defined)."""
        fn = self.mod.functions.get(name)
        if fn is None or fn.declared_only:
            raise IRUnsupported(f"call to undefined function {name}")
        fr = Frame(fn)
        if len(args) != len(fn.params):
            raise IRUnsupported(f"arity mismatch calling {name}")
        for (pt, pn), a in zip(fn.params, args):
            fr.regs[pn] = a
        st.frames.append(fr)
        return fr

    def explore(self, st: State, entry_calls: List, on_path: Callable[[PathResult], None] = None):
        """Run the sequence of entry calls [(fname, args)] from state st over all paths.

        The solver must already contain st.pc. Results are delivered to on_path.
        """
        self._on_path = on_path or self.results.append
        st.user["_entries"] = list(entry_calls)
        st.user["_entry_i"] = 0
        FP_SYMBOLIC[0] = False
        self.cur_state = st
        self.solver.push()
        try:
            for c in st.pc:
                self.solver.add(c)
            self._run(st)
        finally:
            self.solver.pop()

    def _next_entry(self, st) -> bool:
        entries = st.user["_entries"]
        while True:
            i = st.user["_entry_i"]
            if i >= len(entries):
                return False
            name, args = entries[i]
            if callable(name):
                name(self, st)          # may raise ForkRequest: the index is advanced only afterwards
                st.user["_entry_i"] = i + 1
                continue
            st.user["_entry_i"] = i + 1
            if name.startswith("#"):
                st.events.append(("marker", name[1:]))
                continue
            self.call_function(st, name, args)
            return True

    def _finish(self, st, status):
        self.cur_state = st
        self.stats["paths"] += 1
        self._on_path(PathResult(st, status))

    def _run(self, st: State):
        self.cur_state = st
        if self.stats["paths"] >= self.max_paths:
            self._finish(st, "truncated:max-paths")
            return
        try:
            while True:
                if not st.frames:
                    if not self._next_entry(st):
                        self._finish(st, "ok")
                        return
                    continue
                self._step(st)
        except ForkRequest as fr:
            self.stats["forks"] += 1
            conds = fr.conds
            for i, c in enumerate(conds):
                child = st.clone() if i < len(conds) - 1 else st
                self.solver.push()
                self.solver.add(c)
                child.pc.append(c)
                try:
                    self._run(child)
                finally:
                    self.solver.pop()
            return
        except PathEnd as pe:
            self._finish(st, "ended:" + pe.reason)
            return
        except IRUnsupported as e:
            st.notes.append(("unsupported", str(e)))
            self._finish(st, "unsupported:" + str(e))
            return

    # one instruction
    def _step(self, st: State):
        fr = st.frames[-1]
        blk = fr.fn.blocks[fr.block]
        ins = blk.instrs[fr.ip]
        st.steps += 1
        self.stats["instrs"] += 1
        if st.steps > self.max_steps:
            st.notes.append(("truncated", "max-steps"))
            raise PathEnd("truncated:max-steps")
        op = ins.op
        h = getattr(self, "_op_" + op, None)
        if h is None:
            h = self._binop if op in _BIN else (self._cast if op in _CAST else None)
            if h is None:
                raise IRUnsupported(f"op {op}")
        h(st, fr, ins)

    def val(self, fr: Frame, o):
        if isinstance(o, Local):
            try:
                return fr.regs[o.name]
            except KeyError:
                raise IRUnsupported(f"undefined register %{o.name} in {fr.fn.name}")
        key = id(o)
        c = self._const_cache.get(key)
        if c is None:
            v = self.const_value(o)
            self._const_cache[key] = (o, v)
            return v
        return c[1]

    def _set(self, fr, ins, v):
        if ins.dest is not None:
            fr.regs[ins.dest] = v
        fr.ip += 1

    def _goto(self, st, fr, label):
        n = fr.visits.get(label, 0) + 1
        fr.visits[label] = n
        if n > self.max_block_visits:
            st.notes.append(("truncated", f"unwind bound {self.max_block_visits} at {fr.fn.name}:{label}"))
            raise PathEnd("truncated:unwind")
        fr.prev = fr.block
        fr.block = label
        fr.ip = 0
        # evaluate phis simultaneously
        blk = fr.fn.blocks[label]
        newvals = []
        for ins in blk.instrs:
            if ins.op != "phi":
                break
            for v, lbl in ins.extra["incoming"]:
                if lbl == fr.prev:
                    newvals.append((ins.dest, self.val(fr, v)))
                    break
            else:
                raise IRUnsupported("phi without matching predecessor")
        for d, v in newvals:
            fr.regs[d] = v
        fr.ip = len(newvals)

    # ---- control flow
    def _op_br(self, st, fr, ins):
        self._goto(st, fr, ins.extra["dest"])

    def _branch_bool(self, st, c: BV):
        """Decide a symbolic i1: returns True/False, forking when both feasible."""
        if c.concrete:
            return bool(c.v)
        b = bool_of(c)
        if z3.is_true(b):
            return True
        if z3.is_false(b):
            return False
        rt = self.check(b)
        rf = self.check(z3.Not(b))
        if rt == "unknown" or rf == "unknown":
            st.notes.append(("solver-unknown", "branch"))
        t_ok = rt != "unsat"
        f_ok = rf != "unsat"
        if t_ok and f_ok:
            raise ForkRequest([b, z3.Not(b)])
        if t_ok:
            return True
        if f_ok:
            return False
        raise PathEnd("infeasible")

    def _op_condbr(self, st, fr, ins):
        c = self.val(fr, ins.ops[0])
        t = self._branch_bool(st, c)
        self._goto(st, fr, ins.extra["true"] if t else ins.extra["false"])

    def _op_switch(self, st, fr, ins):
        v = self.val(fr, ins.ops[0])
        k = self.concretize(st, v)
        for cv, lbl in ins.extra["cases"]:
            if (cv & mask(v.w)) == k:
                self._goto(st, fr, lbl)
                return
        self._goto(st, fr, ins.extra["default"])

    def _op_ret(self, st, fr, ins):
        rv = self.val(fr, ins.ops[0]) if ins.ops else None
        for oid in fr.allocas:
            st.mem[oid].live = False
        st.frames.pop()
        if st.frames:
            caller = st.frames[-1]
            cins = caller.fn.blocks[caller.block].instrs[caller.ip]
            if cins.dest is not None:
                caller.regs[cins.dest] = rv
            if cins.op == "invoke":
                self._goto(st, caller, cins.extra["normal"])
            else:
                caller.ip += 1
        else:
            st.user["_last_ret"] = rv

    def _op_unreachable(self, st, fr, ins):
        st.flags.append(("unreachable-executed", fr.fn.name))
        raise PathEnd("unreachable")

    def _op_landingpad(self, st, fr, ins):
        raise IRUnsupported("landingpad reached (exception thrown)")

    def _op_resume(self, st, fr, ins):
        raise IRUnsupported("resume reached")

    # ---- memory
    def _op_alloca(self, st, fr, ins):
        et = ins.extra["elem"]
        n = 1
        if ins.ops:
            n = self.concretize(st, self.val(fr, ins.ops[0]))
        oid = st.alloc(self.mod.size_of(et) * n, "stack", f"{fr.fn.name}:%{ins.dest}")
        fr.allocas.append(oid)
        self._set(fr, ins, Ptr(oid, 0))

    def _op_load(self, st, fr, ins):
        p = self.val(fr, ins.ops[0])
        self._set(fr, ins, self.load(st, p, ins.ty))

    def _op_store(self, st, fr, ins):
        v = self.val(fr, ins.ops[0])
        p = self.val(fr, ins.ops[1])
        self.store(st, p, ins.ops[0].ty, v)
        fr.ip += 1

    def _op_getelementptr(self, st, fr, ins):
        base = self.val(fr, ins.ops[0])
        idx = [self.val(fr, o) for o in ins.ops[1:]]
        if not isinstance(base, Ptr):
            raise IRUnsupported("gep on non-pointer")
        self._set(fr, ins, self.gep(base, ins.extra["base_ty"], idx))

    def _op_extractvalue(self, st, fr, ins):
        a = self.val(fr, ins.ops[0])
        for i in ins.extra["idx"]:
            a = a[i]
        self._set(fr, ins, a)

    def _op_insertvalue(self, st, fr, ins):
        a = self.val(fr, ins.ops[0])
        v = self.val(fr, ins.ops[1])

        def ins_at(agg, idx):
            agg = list(agg)
            if len(idx) == 1:
                agg[idx[0]] = v
            else:
                agg[idx[0]] = ins_at(agg[idx[0]], idx[1:])
            return agg
        self._set(fr, ins, ins_at(a, ins.extra["idx"]))

    def _op_freeze(self, st, fr, ins):
        self._set(fr, ins, self.val(fr, ins.ops[0]))

    def _op_phi(self, st, fr, ins):
        # phis are handled at block entry; reaching one here means entry block phi
        raise IRUnsupported("stray phi")

    def _op_select(self, st, fr, ins):
        c = self.val(fr, ins.ops[0])
        a = self.val(fr, ins.ops[1])
        b = self.val(fr, ins.ops[2])
        if c.concrete:
            self._set(fr, ins, a if c.v else b)
            return
        if isinstance(a, BV) and isinstance(b, BV):
            self._set(fr, ins, bv_from_z3(z3.If(bool_of(c), a.z(), b.z())))
            return
        if isinstance(a, FP) and isinstance(b, FP):
            self._set(fr, ins, fp_from_z3(z3.If(bool_of(c), a.z(), b.z()), a.k))
            return
        t = self._branch_bool(st, c)
        self._set(fr, ins, a if t else b)

    # ---- arithmetic
    def _binop(self, st, fr, ins):
        a = self.val(fr, ins.ops[0])
        b = self.val(fr, ins.ops[1])
        op = ins.op
        if op[0] == "f":
            self._set(fr, ins, self.fp_bin(op, a, b))
            return
        if isinstance(a, Ptr) or isinstance(b, Ptr):
            raise IRUnsupported("pointer arithmetic via binop")
        flags = ins.extra.get("flags", ())
        self._set(fr, ins, self.int_bin(st, op, a, b, flags))

    def int_bin(self, st, op, a: BV, b: BV, flags=()):
        w = a.w
        if a.concrete and b.concrete:
            x, y = a.v, b.v
            sx, sy = a.signed(), b.signed()
            if op == "add":
                r = x + y
                if "nsw" in flags and not (-(1 << (w - 1)) <= sx + sy < (1 << (w - 1))):
                    st.flags.append(("signed-overflow", f"add i{w} {sx} {sy}"))
            elif op == "sub":
                r = x - y
                if "nsw" in flags and not (-(1 << (w - 1)) <= sx - sy < (1 << (w - 1))):
                    st.flags.append(("signed-overflow", f"sub i{w} {sx} {sy}"))
            elif op == "mul":
                r = x * y
                if "nsw" in flags and not (-(1 << (w - 1)) <= sx * sy < (1 << (w - 1))):
                    st.flags.append(("signed-overflow", f"mul i{w} {sx} {sy}"))
            elif op in ("udiv", "urem", "sdiv", "srem"):
                if y == 0:
                    st.flags.append(("division-by-zero", op))
                    raise PathEnd("division-by-zero")
                if op == "udiv":
                    r = x // y
                elif op == "urem":
                    r = x % y
                else:
                    q = abs(sx) // abs(sy)
                    if (sx < 0) != (sy < 0):
                        q = -q
                    if op == "sdiv":
                        if sx == -(1 << (w - 1)) and sy == -1:
                            st.flags.append(("signed-overflow", "sdiv INT_MIN/-1"))
                        r = q
                    else:
                        r = sx - q * sy
            elif op == "shl":
                if y >= w:
                    st.flags.append(("shift-too-wide", op))
                    r = 0
                else:
                    r = x << y
            elif op == "lshr":
                r = 0 if y >= w else x >> y
                if y >= w:
                    st.flags.append(("shift-too-wide", op))
            elif op == "ashr":
                if y >= w:
                    st.flags.append(("shift-too-wide", op))
                    y = w - 1
                r = sx >> y
            elif op == "and":
                r = x & y
            elif op == "or":
                r = x | y
            elif op == "xor":
                r = x ^ y
            else:
                raise IRUnsupported(op)
            return BV(w, r & mask(w))
        az, bz = a.z(), b.z()
        if op in ("udiv", "urem", "sdiv", "srem"):
            zero = z3.BitVecVal(0, w)
            if not b.concrete:
                r = self.check(bz == zero)
                if r != "unsat":
                    st.flags.append(("division-by-zero", f"{op} feasible"))
                    self.assume(st, bz != zero)
            elif b.v == 0:
                st.flags.append(("division-by-zero", op))
                raise PathEnd("division-by-zero")
        if self.check_ub and op in ("add", "sub", "mul") and "nsw" in flags:
            ext = w
            ax, bx = z3.SignExt(ext, az), z3.SignExt(ext, bz)
            wide = {"add": ax + bx, "sub": ax - bx, "mul": ax * bx}[op]
            lo = z3.BitVecVal(-(1 << (w - 1)), 2 * w)
            hi = z3.BitVecVal((1 << (w - 1)) - 1, 2 * w)
            ovf = z3.Or(wide < lo, wide > hi)
            if self.check(ovf) != "unsat":
                st.flags.append(("signed-overflow", f"{op} i{w} feasible"))
                self.assume(st, z3.Not(ovf))
        if self.check_ub and op in ("shl", "lshr", "ashr") and not b.concrete:
            wide = z3.UGE(bz, z3.BitVecVal(w, w))
            if self.check(wide) != "unsat":
                st.flags.append(("shift-too-wide", f"{op} feasible"))
                self.assume(st, z3.Not(wide))
        if op == "add":
            e = az + bz
        elif op == "sub":
            e = az - bz
        elif op == "mul":
            e = az * bz
        elif op == "udiv":
            e = z3.UDiv(az, bz)
        elif op == "urem":
            e = z3.URem(az, bz)
        elif op == "sdiv":
            e = az / bz
        elif op == "srem":
            e = z3.SRem(az, bz)
        elif op == "shl":
            e = az << bz
        elif op == "lshr":
            e = z3.LShR(az, bz)
        elif op == "ashr":
            e = az >> bz
        elif op == "and":
            e = az & bz
        elif op == "or":
            e = az | bz
        elif op == "xor":
            e = az ^ bz
        else:
            raise IRUnsupported(op)
        return bv_from_z3(e)

    def fp_bin(self, op, a: FP, b: FP):
        k = a.k
        if a.concrete and b.concrete:
            x, y = a.v, b.v
            try:
                if op == "fadd":
                    r = x + y
                elif op == "fsub":
                    r = x - y
                elif op == "fmul":
                    r = x * y
                elif op == "fdiv":
                    if y == 0.0:
                        raise ZeroDivisionError
                    r = x / y
                else:
                    raise IRUnsupported(op)
                if r != r:
                    raise ZeroDivisionError
                return FP(k, r32(r) if k == 32 else r)
            except (ZeroDivisionError, OverflowError):
                pass
        az, bz = a.z(), b.z()
        if op == "fadd":
            e = z3.fpAdd(RNE, az, bz)
        elif op == "fsub":
            e = z3.fpSub(RNE, az, bz)
        elif op == "fmul":
            e = z3.fpMul(RNE, az, bz)
        elif op == "fdiv":
            e = z3.fpDiv(RNE, az, bz)
        elif op == "frem":
            raise IRUnsupported("frem")
        else:
            raise IRUnsupported(op)
        return fp_from_z3(e, k)

    def _op_fneg(self, st, fr, ins):
        a = self.val(fr, ins.ops[0])
        if a.concrete:
            self._set(fr, ins, FP(a.k, -a.v))
        else:
            self._set(fr, ins, fp_from_z3(z3.fpNeg(a.z()), a.k))

    def _op_icmp(self, st, fr, ins):
        a = self.val(fr, ins.ops[0])
        b = self.val(fr, ins.ops[1])
        pred = ins.extra["pred"]
        if isinstance(a, (Ptr, Fn)) or isinstance(b, (Ptr, Fn)):
            self._set(fr, ins, self._ptr_cmp(st, pred, a, b))
            return
        if a.concrete and b.concrete:
            x, y = (a.signed(), b.signed()) if pred[0] == "s" else (a.v, b.v)
            r = {"eq": x == y, "ne": x != y, "ugt": x > y, "uge": x >= y, "ult": x < y, "ule": x <= y,
                 "sgt": x > y, "sge": x >= y, "slt": x < y, "sle": x <= y}[pred]
            self._set(fr, ins, BV(1, int(r)))
            return
        az, bz = a.z(), b.z()
        e = {"eq": lambda: az == bz, "ne": lambda: az != bz,
             "ugt": lambda: z3.UGT(az, bz), "uge": lambda: z3.UGE(az, bz),
             "ult": lambda: z3.ULT(az, bz), "ule": lambda: z3.ULE(az, bz),
             "sgt": lambda: az > bz, "sge": lambda: az >= bz,
             "slt": lambda: az < bz, "sle": lambda: az <= bz}[pred]()
        self._set(fr, ins, bv_of_bool(e))

    def _ptr_cmp(self, st, pred, a, b):
        def norm(p):
            if isinstance(p, BV):
                if p.concrete and p.v == 0:
                    return NULL
                raise IRUnsupported("ptr/int compare")
            return p
        a, b = norm(a), norm(b)
        if isinstance(a, Fn) or isinstance(b, Fn):
            same = isinstance(a, Fn) and isinstance(b, Fn) and a.name == b.name
        else:
            ao = self._resolve_off(st, a) if not isinstance(a.off, int) else a.off
            bo = self._resolve_off(st, b) if not isinstance(b.off, int) else b.off
            if pred in ("eq", "ne"):
                same = (a.obj == b.obj and ao == bo)
            else:
                if a.obj != b.obj:
                    raise IRUnsupported("relational compare of unrelated pointers")
                r = {"ugt": ao > bo, "uge": ao >= bo, "ult": ao < bo, "ule": ao <= bo}[pred]
                return BV(1, int(r))
        if pred == "eq":
            return BV(1, int(same))
        if pred == "ne":
            return BV(1, int(not same))
        raise IRUnsupported("pointer compare " + pred)

    def _op_fcmp(self, st, fr, ins):
        a = self.val(fr, ins.ops[0])
        b = self.val(fr, ins.ops[1])
        pred = ins.extra["pred"]
        if a.concrete and b.concrete:
            x, y = a.v, b.v
            nan = x != x or y != y
            base = {"eq": x == y, "ne": x != y, "gt": x > y, "ge": x >= y, "lt": x < y, "le": x <= y}
            if pred in ("true", "false"):
                r = pred == "true"
            elif pred == "ord":
                r = not nan
            elif pred == "uno":
                r = nan
            elif pred[0] == "o":
                r = (not nan) and base[pred[1:]]
            else:
                r = nan or base[pred[1:]]
            self._set(fr, ins, BV(1, int(r)))
            return
        az, bz = a.z(), b.z()
        nan = z3.Or(z3.fpIsNaN(az), z3.fpIsNaN(bz))
        base = {"eq": lambda: z3.fpEQ(az, bz), "ne": lambda: z3.Not(z3.fpEQ(az, bz)),
                "gt": lambda: z3.fpGT(az, bz), "ge": lambda: z3.fpGEQ(az, bz),
                "lt": lambda: z3.fpLT(az, bz), "le": lambda: z3.fpLEQ(az, bz)}
        if pred == "ord":
            e = z3.Not(nan)
        elif pred == "uno":
            e = nan
        elif pred == "true":
            e = z3.BoolVal(True)
        elif pred == "false":
            e = z3.BoolVal(False)
        elif pred[0] == "o":
            e = z3.And(z3.Not(nan), base[pred[1:]]())
        else:
            e = z3.Or(nan, base[pred[1:]]())
        self._set(fr, ins, bv_of_bool(e))

    def _cast(self, st, fr, ins):
        a = self.val(fr, ins.ops[0])
        op = ins.op
        dt = self.mod.resolve(ins.ty) if ins.ty.kind == "named" else ins.ty
        if op in ("bitcast", "addrspacecast"):
            if isinstance(a, (Ptr, Fn)) and dt.kind == "ptr":
                self._set(fr, ins, a)
                return
            if isinstance(a, BV) and dt.kind == "int" and dt.bits == a.w:
                self._set(fr, ins, a)
                return
            raise IRUnsupported(f"bitcast {a} to {dt}")
        if op == "trunc":
            if a.concrete:
                r = BV(dt.bits, a.v & mask(dt.bits))
            else:
                r = bv_from_z3(z3.Extract(dt.bits - 1, 0, a.v))
        elif op == "zext":
            if a.concrete:
                r = BV(dt.bits, a.v)
            else:
                r = bv_from_z3(z3.ZeroExt(dt.bits - a.w, a.v))
        elif op == "sext":
            if a.concrete:
                r = BV(dt.bits, a.signed() & mask(dt.bits))
            else:
                r = bv_from_z3(z3.SignExt(dt.bits - a.w, a.v))
        elif op in ("sitofp", "uitofp"):
            k = 32 if dt.kind == "float" else 64
            if a.concrete:
                x = float(a.signed() if op == "sitofp" else a.v)
                r = FP(k, r32(x) if k == 32 else x)
            else:
                srt = F32 if k == 32 else F64
                e = z3.fpSignedToFP(RNE, a.v, srt) if op == "sitofp" else z3.fpUnsignedToFP(RNE, a.v, srt)
                r = fp_from_z3(e, k)
        elif op in ("fptosi", "fptoui"):
            w = dt.bits
            if a.concrete:
                x = a.v
                if x != x or x in (float("inf"), float("-inf")):
                    st.flags.append(("fp-to-int-out-of-range", repr(x)))
                    raise PathEnd("fp-to-int-ub")
                t = int(x)
                lo, hi = (-(1 << (w - 1)), (1 << (w - 1)) - 1) if op == "fptosi" else (0, (1 << w) - 1)
                if not lo <= t <= hi:
                    st.flags.append(("fp-to-int-out-of-range", repr(x)))
                    raise PathEnd("fp-to-int-ub")
                r = BV(w, t & mask(w))
            else:
                az = a.z()
                srt = az.sort()
                if op == "fptosi":
                    bad = z3.Or(z3.fpIsNaN(az), z3.fpIsInf(az),
                                z3.fpGEQ(az, z3.FPVal(2.0 ** (w - 1), srt)),
                                z3.fpLT(az, z3.FPVal(-(2.0 ** (w - 1)), srt)))
                    e = z3.fpToSBV(RTZ, az, z3.BitVecSort(w))
                else:
                    bad = z3.Or(z3.fpIsNaN(az), z3.fpIsInf(az),
                                z3.fpGEQ(az, z3.FPVal(2.0 ** w, srt)),
                                z3.fpLEQ(az, z3.FPVal(-1.0, srt)))
                    e = z3.fpToUBV(RTZ, az, z3.BitVecSort(w))
                if self.check_ub:
                    if self.check(bad) != "unsat":
                        st.flags.append(("fp-to-int-out-of-range", "feasible"))
                        self.assume(st, z3.Not(bad))
                r = bv_from_z3(e)
        elif op == "fpext":
            if a.concrete:
                r = FP(64, a.v)
            else:
                r = fp_from_z3(z3.fpFPToFP(RNE, a.v, F64), 64)
        elif op == "fptrunc":
            if a.concrete:
                r = FP(32, r32(a.v))
            else:
                r = fp_from_z3(z3.fpFPToFP(RNE, a.v, F32), 32)
        elif op == "ptrtoint":
            if isinstance(a, Ptr) and a.obj == 0:
                r = mk_bv(dt.bits, a.off if isinstance(a.off, int) else 0)
            else:
                # opaque address: object id in the high bits (only equality is meaningful)
                off = a.off if isinstance(a.off, int) else self._resolve_off(st, a)
                r = BV(dt.bits, ((a.obj << 32) + off) & mask(dt.bits))
        elif op == "inttoptr":
            if a.concrete:
                if a.v == 0:
                    r = NULL
                else:
                    r = Ptr(a.v >> 32, a.v & 0xFFFFFFFF)
            else:
                raise IRUnsupported("symbolic inttoptr")
        else:
            raise IRUnsupported(op)
        self._set(fr, ins, r)

    # ---- calls
    def _op_call(self, st, fr, ins):
        callee = ins.ops[0]
        if isinstance(callee, Local):
            target = fr.regs[callee.name]
        else:
            target = self.val(fr, callee)
        if not isinstance(target, Fn):
            raise IRUnsupported("indirect call through non-function")
        name = target.name
        args = [self.val(fr, o) for o in ins.ops[1:]]
        h = self.handlers.get(name)
        if h is None and name.startswith("llvm."):
            h = self._intrinsic(name)
        if h is not None:
            rv = h(self, st, args, ins)
            if ins.dest is not None:
                fr.regs[ins.dest] = rv
            if ins.op == "invoke":
                self._goto(st, fr, ins.extra["normal"])
            else:
                fr.ip += 1
            return
        fn = self.mod.functions.get(name)
        if fn is None or fn.declared_only:
            raise IRUnsupported(f"external function {name} has no handler")
        self.call_function(st, name, args)

    _op_invoke = _op_call

    def _intrinsic(self, name):
        if name.startswith("llvm.memcpy") or name.startswith("llvm.memmove"):
            def h(ex, st, args, ins):
                n = ex.concretize(st, args[2])
                ex.memcpy(st, args[0], args[1], n)
            return h
        if name.startswith("llvm.memset"):
            def h(ex, st, args, ins):
                n = ex.concretize(st, args[2])
                b = ex.concretize(st, args[1])
                ex.memset(st, args[0], b, n)
            return h
        if name.startswith("llvm.umul.with.overflow"):
            def h(ex, st, args, ins):
                a, b = args
                w = a.w
                if a.concrete and b.concrete:
                    p = a.v * b.v
                    return [BV(w, p & mask(w)), BV(1, int(p >> w != 0))]
                az, bz = z3.ZeroExt(w, a.z()), z3.ZeroExt(w, b.z())
                p = az * bz
                return [bv_from_z3(z3.Extract(w - 1, 0, p)),
                        bv_of_bool(z3.Extract(2 * w - 1, w, p) != z3.BitVecVal(0, w))]
            return h
        if name.startswith("llvm.lifetime") or name.startswith("llvm.dbg") or name.startswith("llvm.invariant") \
                or name in ("llvm.stacksave", "llvm.stackrestore", "llvm.assume", "llvm.donothing"):
            return lambda ex, st, args, ins: None
        if name.startswith("llvm.fabs"):
            def h(ex, st, args, ins):
                a = args[0]
                if a.concrete:
                    return FP(a.k, abs(a.v))
                return fp_from_z3(z3.fpAbs(a.z()), a.k)
            return h
        if name.startswith("llvm.trap"):
            def h(ex, st, args, ins):
                st.flags.append(("trap", ""))
                raise PathEnd("trap")
            return h
        raise IRUnsupported(f"intrinsic {name}")


_BIN = {"add", "sub", "mul", "udiv", "sdiv", "urem", "srem", "shl", "lshr", "ashr",
        "and", "or", "xor", "fadd", "fsub", "fmul", "fdiv", "frem"}
_CAST = {"trunc", "zext", "sext", "fptrunc", "fpext", "fptoui", "fptosi", "uitofp",
         "sitofp", "ptrtoint", "inttoptr", "bitcast", "addrspacecast"}


# ------------------------------------------------------------------ handlers
def sx64(b: BV) -> BV:
    if b.w == 64:
        return b
    if b.concrete:
        return BV(64, b.signed() & mask(64))
    return bv_from_z3(z3.SignExt(64 - b.w, b.v))


def zx64(b: BV) -> BV:
    if b.w == 64:
        return b
    if b.concrete:
        return BV(64, b.v)
    return bv_from_z3(z3.ZeroExt(64 - b.w, b.v))


def install_default_handlers(ex: Executor):
    H = ex.handlers

    def event(name, *conv):
        def h(ex, st, args, ins):
            st.events.append((name,) + tuple(args))
        return h

    for n in ("pinMode", "digitalWrite", "analogWrite", "delayMicroseconds", "noTone"):
        H[n] = event(n)

    def h_delay(ex, st, args, ins):
        st.events.append(("delay", args[0]))
        st.clock_pending = _clock_add(st.clock_pending, args[0])
    H["delay"] = h_delay

    def h_tone(ex, st, args, ins):
        st.events.append(("tone",) + tuple(args))
    H["_Z4tonehjm"] = h_tone

    def h_dread(ex, st, args, ins):
        pin = ex.concretize(st, args[0])
        v = ex.new_input(st, "dread", pin, 32, 0, 1)
        st.events.append(("digitalRead", args[0], v))
        return v
    H["digitalRead"] = h_dread

    def h_aread(ex, st, args, ins):
        pin = ex.concretize(st, args[0])
        v = ex.new_input(st, "aread", pin, 32, 0, 1023)
        st.events.append(("analogRead", args[0], v))
        return v
    H["analogRead"] = h_aread

    def h_pulse(ex, st, args, ins):
        pin = ex.concretize(st, args[0])
        # contract of pulseIn(pin, state, timeout): 0 when no complete pulse was seen within the timeout, otherwise the
        # pulse length in microseconds, which cannot exceed the timeout (one loop budget covers waiting and measuring)
        hi = (1 << 31) - 1
        if len(args) > 2 and args[2].concrete and 0 < args[2].v <= hi:
            hi = args[2].v
        v = ex.new_input(st, "pulse", pin, 64, 0, hi)
        st.events.append(("pulseIn", args[0], args[1], v))
        # pulseIn blocks: at least the echo time, or the whole timeout when it returns 0
        tmo = args[2].z() if len(args) > 2 else z3.BitVecVal(1000000, 64)
        thousand = z3.BitVecVal(1000, 64)
        # the quotient is computed on 32 bits (v < 2^31): the bit-blasted 64-bit divider dominated every query
        v_ms = z3.ZeroExt(32, z3.UDiv(z3.Extract(31, 0, v.v), z3.BitVecVal(1000, 32)))
        elapsed_ms = z3.If(v.v == z3.BitVecVal(0, 64), z3.UDiv(tmo, thousand), v_ms)
        st.clock_pending = _clock_add(st.clock_pending, BV(64, simp(elapsed_ms)))
        return v
    H["_Z7pulseInhhm"] = h_pulse

    def h_millis(ex, st, args, ins):
        """Default: a non-decreasing clock below 2^40 ms.  With CLOCK_WRAP the millisecond clock is a free-running
        modular counter: the first reading is arbitrary (the sketch may have been up for any time - the counter wraps),
        every later reading is the previous one plus the delays executed since plus an arbitrary extra < 2^32 ms,
        modulo 2^64 (the mock's `unsigned long`)."""
        if CLOCK_WRAP[0]:
            v = ex.new_input(st, "millis", 0, 64)
            if st.clock_last is not None:
                gap = ex.new_input(st, "millisgap", 0, 64, 0, (1 << 32) - 1)
                lower = _clock_add(st.clock_last, st.clock_pending)
                lz = z3.BitVecVal(lower & ((1 << 64) - 1), 64) if isinstance(lower, int) else lower
                ex.assume(st, v.v == lz + gap.v)
        else:
            v = ex.new_input(st, "millis", 0, 64, 0, (1 << 40))
            base = st.clock_last if st.clock_last is not None else 0
            lower = _clock_add(base, st.clock_pending)
            if not (isinstance(lower, int) and lower == 0):
                lz = z3.BitVecVal(lower, 64) if isinstance(lower, int) else lower
                ex.assume(st, z3.UGE(v.v, lz))
        st.clock_last = v.v
        st.clock_pending = 0
        st.events.append(("millis", v))
        return v
    H["millis"] = h_millis

    def h_micros(ex, st, args, ins):
        v = ex.new_input(st, "micros", 0, 64, 0, (1 << 50))
        st.events.append(("micros", v))
        return v
    H["micros"] = h_micros

    # ---- tokens / serial
    def new_tok(st, kind, *payload):
        tid = TOK_BASE + len(st.tokens)
        st.tokens[tid] = (kind,) + payload
        return BV(32, tid)

    H["__vp_tok_int"] = lambda ex, st, a, ins: new_tok(st, "int", a[0])
    H["__vp_tok_uint"] = lambda ex, st, a, ins: new_tok(st, "int", a[0])
    H["__vp_tok_flt"] = lambda ex, st, a, ins: new_tok(st, "flt", a[0], a[1])

    def piece_of_cell(st, c: BV):
        if c.concrete and c.v >= TOK_BASE:
            return st.tokens[c.v]
        return ("c", c)

    H["__vp_serial_begin"] = lambda ex, st, a, ins: st.events.append(("serial_begin", a[0]))
    H["__vp_serial_int"] = lambda ex, st, a, ins: st.events.append(("ser", ("int", a[0])))
    H["__vp_serial_uint"] = lambda ex, st, a, ins: st.events.append(("ser", ("int", a[0])))
    H["__vp_serial_flt"] = lambda ex, st, a, ins: st.events.append(("ser", ("flt", a[0], a[1])))
    H["__vp_serial_char"] = lambda ex, st, a, ins: st.events.append(("ser", ("c", a[0])))
    H["__vp_serial_nl"] = lambda ex, st, a, ins: st.events.append(("ser", ("c", BV(32, 10))))

    def h_cells(ex, st, a, ins):
        n = ex.concretize(st, a[1])
        for i in range(n):
            c = ex.load(st, Ptr(a[0].obj, ex._off_add_const(a[0].off, 4 * i)), I32)
            st.events.append(("ser", piece_of_cell(st, c)))
    H["__vp_serial_cells"] = h_cells

    def h_cstr(ex, st, a, ins):
        for b in ex.read_cstr(st, a[0]):
            st.events.append(("ser", ("c", BV(32, b.v) if b.concrete else bv_from_z3(z3.ZeroExt(24, b.v)))))
    H["__vp_serial_cstr"] = h_cstr

    def h_imprecise(ex, st, a, ins):
        st.notes.append(("imprecise", f"string op on rendered number ({a[0]})"))
    H["__vp_imprecise"] = h_imprecise

    def h_unsupported(ex, st, a, ins):
        raise IRUnsupported(f"mock core: unsupported operation {a[0]}")
    H["__vp_unsupported"] = h_unsupported

    # ---- servo / lcd
    def objname(ex, p):
        return ex.obj_names.get(p.obj, f"obj{p.obj}")

    H["__vp_servo_attach"] = lambda ex, st, a, ins: st.events.append(("servo_attach", objname(ex, a[0]), a[1], a[2], a[3]))
    H["__vp_servo_write"] = lambda ex, st, a, ins: st.events.append(("servo_write", objname(ex, a[0]), a[1]))
    H["__vp_servo_us"] = lambda ex, st, a, ins: st.events.append(("servo_us", objname(ex, a[0]), a[1]))
    H["__vp_servo_detach"] = lambda ex, st, a, ins: st.events.append(("servo_detach", objname(ex, a[0])))
    H["__vp_lcd_init"] = lambda ex, st, a, ins: st.events.append(("lcd_init", objname(ex, a[0]), a[1], a[2], a[3]))
    H["__vp_lcd_clear"] = lambda ex, st, a, ins: st.events.append(("lcd_clear", objname(ex, a[0])))
    H["__vp_lcd_cursor"] = lambda ex, st, a, ins: st.events.append(("lcd_cursor", objname(ex, a[0]), a[1], a[2]))

    def h_put(ex, st, a, ins):
        # positions are concretised (fork over feasible values): cell matrices stay concrete-indexed
        row = ex.concretize(st, a[1])
        col = ex.concretize(st, a[2])
        row = row - (1 << 32) if row >> 31 else row
        col = col - (1 << 32) if col >> 31 else col
        st.events.append(("lcd_put", objname(ex, a[0]), row, col, piece_of_cell(st, a[3])))
    H["__vp_lcd_put"] = h_put
    H["__vp_lcd_display"] = lambda ex, st, a, ins: st.events.append(("lcd_display", objname(ex, a[0]), a[1]))
    H["__vp_lcd_backlight"] = lambda ex, st, a, ins: st.events.append(("lcd_backlight", objname(ex, a[0]), a[1]))

    def h_glyph(ex, st, a, ins):
        rows = [ex.load(st, Ptr(a[2].obj, ex._off_add_const(a[2].off, i)), I8) for i in range(8)]
        st.events.append(("lcd_glyph", objname(ex, a[0]), a[1], tuple(rows)))
    H["__vp_lcd_glyph"] = h_glyph

    # ---- heap
    def h_new(ex, st, a, ins):
        n = ex.concretize(st, a[0])
        if n >= (1 << 40):
            st.flags.append(("bad-alloc-size", str(n)))
            raise PathEnd("bad-alloc")
        oid = st.alloc(n, "heap", f"heap#{st.next_obj}")
        st.heap_live += n
        st.user["heap_blocks"] = st.user.get("heap_blocks", 0) + 1
        return Ptr(oid, 0)
    H["_Znam"] = h_new
    H["_Znwm"] = h_new

    def h_delete(ex, st, a, ins):
        p = a[0]
        if p.obj == 0:
            return None
        obj = st.mem.get(p.obj)
        off = ex._resolve_off(st, p)
        if obj is None or obj.kind != "heap" or off != 0:
            st.flags.append(("invalid-free", f"{p}"))
            raise PathEnd("invalid-free")
        if not obj.live:
            st.flags.append(("double-free", obj.name))
            raise PathEnd("double-free")
        obj.live = False
        st.heap_live -= obj.size
        st.user["heap_blocks"] = st.user.get("heap_blocks", 0) - 1
        return None
    for n in ("_ZdaPv", "_ZdlPv", "_ZdaPvm", "_ZdlPvm"):
        H[n] = h_delete

    H["__cxa_atexit"] = lambda ex, st, a, ins: BV(32, 0)
    H["__cxa_guard_acquire"] = lambda ex, st, a, ins: BV(32, 1)
    H["__cxa_guard_release"] = lambda ex, st, a, ins: None
    H["__cxa_pure_virtual"] = lambda ex, st, a, ins: None

    def h_strlen(ex, st, a, ins):
        return BV(64, len(ex.read_cstr(st, a[0])))
    H["strlen"] = h_strlen

    # harness inputs
    def h_sym_int(ex, st, a, ins):
        return ex.new_input(st, "sym", "i", 32)
    H["__sym_int"] = h_sym_int

    def h_sym_float(ex, st, a, ins):
        k = st.in_count.get(("symf", 0), 0)
        st.in_count[("symf", 0)] = k + 1
        name = f"in_symf_{k}"
        v = z3.FP(name, F32)
        st.inputs.append((name, v))
        return FP(32, v)
    H["__sym_float"] = h_sym_float

    def h_assume(ex, st, a, ins):
        c = a[0]
        if c.concrete:
            if c.v == 0:
                raise PathEnd("assume-false")
            return None
        b = simp(c.v != z3.BitVecVal(0, c.w))
        if ex.check(b) == "unsat":
            raise PathEnd("assume-false")
        ex.assume(st, b)
        return None
    H["__sym_assume"] = h_assume

    def h_observe(ex, st, a, ins):
        st.events.append(("observe",) + tuple(a))
    H["__sym_observe_i"] = h_observe
    H["__sym_observe_f"] = h_observe


CLOCK_WRAP = [False]


def _clock_add(a, d):
    """a: int or z3 BV64; d: BV -> z3/int sum"""
    dv = d.v if isinstance(d, BV) else d
    if isinstance(dv, int) and isinstance(a, int):
        return a + dv
    az = z3.BitVecVal(a, 64) if isinstance(a, int) else a
    dz = z3.BitVecVal(dv, 64) if isinstance(dv, int) else dv
    return simp(az + dz)
