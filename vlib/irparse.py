"""Parser for the textual LLVM-14 IR subset clang emits for Reduino sketches.

Only what `clang++-14 -O0 -emit-llvm` + `opt -passes=mem2reg` produces for the
emitted sketches and the mock core is supported; anything else raises
IRUnsupported so that the obligation is reported inconclusive, never passed.
"""
from __future__ import annotations

import re
import struct
from dataclasses import dataclass, field
from typing import Dict, List, Optional, Tuple


class IRUnsupported(Exception):
    pass


# ------------------------------------------------------------------ types
@dataclass(frozen=True)
class Ty:
    kind: str  # int float double void ptr array struct func label metadata opaque
    bits: int = 0
    elem: Optional["Ty"] = None
    count: int = 0
    fields: Tuple["Ty", ...] = ()
    packed: bool = False
    name: str = ""

    def __repr__(self):
        if self.kind == "int":
            return f"i{self.bits}"
        if self.kind in ("float", "double", "void", "label", "metadata"):
            return self.kind
        if self.kind == "ptr":
            return f"{self.elem!r}*"
        if self.kind == "array":
            return f"[{self.count} x {self.elem!r}]"
        if self.kind == "struct":
            return "{" + ", ".join(map(repr, self.fields)) + "}"
        if self.kind == "named":
            return "%" + self.name
        return self.kind


VOID = Ty("void")
I1 = Ty("int", 1)
I8 = Ty("int", 8)
I32 = Ty("int", 32)
I64 = Ty("int", 64)
FLOAT = Ty("float")
DOUBLE = Ty("double")


def ptr_to(t: Ty) -> Ty:
    return Ty("ptr", elem=t)


# ------------------------------------------------------------------ tokens
_TOKEN_RE = re.compile(
    r"""
    (?P<ws>[ \t\r\n]+)
  | (?P<comment>;[^\n]*)
  | (?P<cstr>c"(?:[^"\\]|\\[0-9A-Fa-f]{2}|\\\\)*")
  | (?P<str>"(?:[^"\\]|\\.)*")
  | (?P<gid>@(?:"[^"]*"|[-a-zA-Z$._0-9]+))
  | (?P<lid>%(?:"[^"]*"|[-a-zA-Z$._0-9]+))
  | (?P<meta>![-a-zA-Z$._0-9]*)
  | (?P<attr>\#[0-9]+)
  | (?P<comdat>\$(?:"[^"]*"|[-a-zA-Z$._0-9]+))
  | (?P<hex>0x[KLMHR]?[0-9A-Fa-f]+)
  | (?P<float>[-+]?[0-9]+\.[0-9]*(?:[eE][-+]?[0-9]+)?)
  | (?P<int>-?[0-9]+)
  | (?P<dots>\.\.\.)
  | (?P<word>[a-zA-Z_][a-zA-Z0-9_.]*)
  | (?P<punct>[()\[\]{}<>,=*:!|])
    """,
    re.X,
)


def tokenize(text: str) -> List[Tuple[str, str]]:
    out = []
    pos = 0
    n = len(text)
    while pos < n:
        m = _TOKEN_RE.match(text, pos)
        if not m:
            raise IRUnsupported(f"cannot tokenize at: {text[pos:pos+40]!r}")
        pos = m.end()
        k = m.lastgroup
        if k in ("ws", "comment"):
            continue
        out.append((k, m.group(k)))
    return out


# ------------------------------------------------------------------ IR nodes
@dataclass
class Const:
    ty: Ty
    kind: str  # int float null undef zero global array struct cstr expr func
    val: object = None
    # expr: val = (opcode, [operands...], extra)


@dataclass
class Local:
    ty: Ty
    name: str


@dataclass
class Instr:
    op: str
    dest: Optional[str] = None
    ty: Optional[Ty] = None  # result type
    ops: list = field(default_factory=list)
    extra: dict = field(default_factory=dict)


@dataclass
class Block:
    name: str
    instrs: List[Instr] = field(default_factory=list)


@dataclass
class Function:
    name: str
    ret: Ty
    params: List[Tuple[Ty, str]]
    blocks: Dict[str, Block] = field(default_factory=dict)
    order: List[str] = field(default_factory=list)
    declared_only: bool = False
    vararg: bool = False


@dataclass
class GlobalVar:
    name: str
    ty: Ty
    init: Optional[Const]
    constant: bool
    external: bool


class Module:
    def __init__(self):
        self.named_types: Dict[str, Ty] = {}
        self.globals: Dict[str, GlobalVar] = {}
        self.functions: Dict[str, Function] = {}
        self.ctors: List[str] = []

    # ---- layout (x86-64 / natural alignment)
    def resolve(self, t: Ty) -> Ty:
        while t.kind == "named":
            if t.name not in self.named_types:
                raise IRUnsupported(f"unknown type %{t.name}")
            t = self.named_types[t.name]
        return t

    def align_of(self, t: Ty) -> int:
        t = self.resolve(t)
        if t.kind == "int":
            return max(1, min(8, (t.bits + 7) // 8 if t.bits not in (1,) else 1))
        if t.kind == "float":
            return 4
        if t.kind in ("double", "ptr"):
            return 8
        if t.kind == "array":
            return self.align_of(t.elem)
        if t.kind == "struct":
            if t.packed:
                return 1
            return max([self.align_of(f) for f in t.fields] or [1])
        raise IRUnsupported(f"align of {t}")

    def size_of(self, t: Ty) -> int:
        t = self.resolve(t)
        if t.kind == "int":
            b = (t.bits + 7) // 8
            # round to power of two storage
            s = 1
            while s < b:
                s *= 2
            return s
        if t.kind == "float":
            return 4
        if t.kind in ("double", "ptr"):
            return 8
        if t.kind == "array":
            return t.count * self.size_of(t.elem)
        if t.kind == "struct":
            off = 0
            for f in t.fields:
                if not t.packed:
                    a = self.align_of(f)
                    off = (off + a - 1) // a * a
                off += self.size_of(f)
            if not t.packed:
                a = self.align_of(t)
                off = (off + a - 1) // a * a
            return off
        if t.kind == "opaque":
            return 0
        raise IRUnsupported(f"size of {t}")

    def field_offset(self, t: Ty, idx: int) -> int:
        t = self.resolve(t)
        off = 0
        for i, f in enumerate(t.fields):
            if not t.packed:
                a = self.align_of(f)
                off = (off + a - 1) // a * a
            if i == idx:
                return off
            off += self.size_of(f)
        raise IRUnsupported("field index out of range")


# ------------------------------------------------------------------ parser
_LINKAGE = {
    "private", "internal", "available_externally", "linkonce", "weak", "common",
    "appending", "extern_weak", "linkonce_odr", "weak_odr", "external", "dso_local",
    "dso_preemptable", "default", "hidden", "protected", "unnamed_addr",
    "local_unnamed_addr", "thread_local", "dllimport", "dllexport",
}
_PARAM_ATTRS = {
    "noundef", "zeroext", "signext", "nonnull", "noalias", "nocapture", "readonly",
    "writeonly", "returned", "immarg", "inreg", "nest", "readnone", "nofree", "swiftself",
}
_FAST_MATH = {"fast", "nnan", "ninf", "nsz", "arcp", "contract", "afn", "reassoc"}
_BINOPS = {"add", "sub", "mul", "udiv", "sdiv", "urem", "srem", "shl", "lshr", "ashr",
           "and", "or", "xor", "fadd", "fsub", "fmul", "fdiv", "frem"}
_CASTS = {"trunc", "zext", "sext", "fptrunc", "fpext", "fptoui", "fptosi", "uitofp",
          "sitofp", "ptrtoint", "inttoptr", "bitcast", "addrspacecast"}


class Parser:
    def __init__(self, text: str):
        self.toks = tokenize(text)
        self.i = 0
        self.mod = Module()

    # ---- token helpers
    def peek(self, k=0):
        j = self.i + k
        return self.toks[j] if j < len(self.toks) else ("eof", "")

    def next(self):
        t = self.peek()
        self.i += 1
        return t

    def accept(self, val):
        if self.peek()[1] == val:
            self.i += 1
            return True
        return False

    def expect(self, val):
        t = self.next()
        if t[1] != val:
            raise IRUnsupported(f"expected {val!r}, got {t!r} near {self.toks[self.i-5:self.i+5]}")
        return t

    @staticmethod
    def _unq(name: str) -> str:
        name = name[1:]
        if name.startswith('"'):
            name = name[1:-1]
        return name

    # ---- types
    def parse_type(self) -> Ty:
        k, v = self.next()
        if k == "word":
            if v == "void":
                t = VOID
            elif v == "float":
                t = FLOAT
            elif v == "double":
                t = DOUBLE
            elif v == "label":
                t = Ty("label")
            elif v == "metadata":
                t = Ty("metadata")
            elif v == "opaque":
                t = Ty("opaque")
            elif v == "ptr":
                t = ptr_to(I8)
            elif re.fullmatch(r"i[0-9]+", v):
                t = Ty("int", int(v[1:]))
            else:
                raise IRUnsupported(f"type {v}")
        elif k == "lid":
            t = Ty("named", name=self._unq(v))
        elif v == "[":
            n = int(self.next()[1])
            self.expect("x")
            e = self.parse_type()
            self.expect("]")
            t = Ty("array", elem=e, count=n)
        elif v == "{":
            t = self._struct_body(False)
        elif v == "<":
            if self.peek()[1] == "{":
                self.next()
                t = self._struct_body(True)
                self.expect(">")
            else:
                raise IRUnsupported("vector type")
        else:
            raise IRUnsupported(f"type token {k} {v}")
        # suffixes
        while True:
            if self.accept("*"):
                t = ptr_to(t)
            elif self.peek()[1] == "(":
                # function type
                self.next()
                args = []
                vararg = False
                while not self.accept(")"):
                    if self.accept("..."):
                        vararg = True
                    else:
                        args.append(self.parse_type())
                    self.accept(",")
                t = Ty("func", elem=t, fields=tuple(args), packed=vararg)
            else:
                break
        return t

    def _struct_body(self, packed) -> Ty:
        fields = []
        while not self.accept("}"):
            fields.append(self.parse_type())
            self.accept(",")
        return Ty("struct", fields=tuple(fields), packed=packed)

    # ---- constants / values
    def parse_value(self, ty: Ty):
        """Parse an operand of known type: local or constant."""
        k, v = self.peek()
        if k == "lid":
            self.next()
            return Local(ty, self._unq(v))
        return self.parse_const(ty)

    def parse_const(self, ty: Ty) -> Const:
        k, v = self.next()
        rty = ty
        if k == "int":
            if ty.kind in ("float", "double"):
                return Const(ty, "float", float(v))
            return Const(ty, "int", int(v))
        if k == "float":
            return Const(ty, "float", float(v))
        if k == "hex":
            body = v[2:]
            if body[0] in "KLMHR":
                raise IRUnsupported("wide float constant")
            bits = int(body, 16)
            return Const(ty, "float", struct.unpack("<d", struct.pack("<Q", bits))[0])
        if k == "gid":
            return Const(ty, "global", self._unq(v))
        if k == "cstr":
            raw = v[2:-1]
            out = bytearray()
            j = 0
            while j < len(raw):
                if raw[j] == "\\":
                    if raw[j + 1] == "\\":
                        out.append(92)
                        j += 2
                    else:
                        out.append(int(raw[j + 1:j + 3], 16))
                        j += 3
                else:
                    out.append(ord(raw[j]))
                    j += 1
            return Const(ty, "cstr", bytes(out))
        if k == "word":
            if v == "true":
                return Const(ty, "int", 1)
            if v == "false":
                return Const(ty, "int", 0)
            if v == "null":
                return Const(ty, "null")
            if v in ("undef", "poison"):
                return Const(ty, "undef")
            if v == "zeroinitializer":
                return Const(ty, "zero")
            if v == "getelementptr":
                inb = self.accept("inbounds")
                self.expect("(")
                bt = self.parse_type()
                self.expect(",")
                pt = self.parse_type()
                base = self.parse_const(pt)
                idx = []
                while self.accept(","):
                    self.accept("inrange")
                    it = self.parse_type()
                    idx.append(self.parse_const(it))
                self.expect(")")
                return Const(ty, "expr", ("getelementptr", [base] + idx, {"base_ty": bt}))
            if v in _CASTS:
                self.expect("(")
                st = self.parse_type()
                src = self.parse_const(st)
                self.expect("to")
                dt = self.parse_type()
                self.expect(")")
                return Const(dt, "expr", (v, [src], {"to": dt}))
            if v in _BINOPS:
                while self.peek()[1] in ("nsw", "nuw", "exact"):
                    self.next()
                self.expect("(")
                t1 = self.parse_type()
                a = self.parse_const(t1)
                self.expect(",")
                t2 = self.parse_type()
                b = self.parse_const(t2)
                self.expect(")")
                return Const(t1, "expr", (v, [a, b], {}))
            raise IRUnsupported(f"constant word {v}")
        if v == "[":
            elems = []
            while not self.accept("]"):
                et = self.parse_type()
                elems.append(self.parse_const(et))
                self.accept(",")
            return Const(ty, "array", elems)
        if v == "{":
            elems = []
            while not self.accept("}"):
                et = self.parse_type()
                elems.append(self.parse_const(et))
                self.accept(",")
            return Const(ty, "struct", elems)
        if v == "<":
            self.expect("{")
            elems = []
            while not self.accept("}"):
                et = self.parse_type()
                elems.append(self.parse_const(et))
                self.accept(",")
            self.expect(">")
            return Const(ty, "struct", elems)
        raise IRUnsupported(f"constant token {k} {v}")

    def parse_typed_value(self):
        t = self.parse_type()
        self._skip_param_attrs()
        return self.parse_value(t)

    def _skip_param_attrs(self):
        while True:
            k, v = self.peek()
            if k == "word" and v in _PARAM_ATTRS:
                self.next()
            elif k == "word" and v in ("align", "dereferenceable", "dereferenceable_or_null"):
                self.next()
                if self.accept("("):
                    self.next()
                    self.expect(")")
                else:
                    self.next()
            elif k == "word" and v in ("sret", "byval", "byref", "inalloca", "preallocated", "elementtype"):
                self.next()
                if self.accept("("):
                    self.parse_type()
                    self.expect(")")
            else:
                break

    # ---- module
    def parse_module(self) -> Module:
        while self.peek()[0] != "eof":
            k, v = self.peek()
            if k == "word" and v in ("source_filename", "target"):
                # skip to next top-level statement: consume until string token
                self.next()
                while self.peek()[0] != "str":
                    self.next()
                self.next()
            elif k == "lid":
                self.next()
                self.expect("=")
                self.expect("type")
                self.mod.named_types[self._unq(v)] = self.parse_type()
            elif k == "comdat":
                self.next()
                self.expect("=")
                self.expect("comdat")
                self.next()
            elif k == "gid":
                self.parse_global()
            elif k == "word" and v == "define":
                self.parse_function(define=True)
            elif k == "word" and v == "declare":
                self.parse_function(define=False)
            elif k == "word" and v == "attributes":
                self.next()
                self.next()
                self.expect("=")
                self.expect("{")
                while not self.accept("}"):
                    self.next()
            elif k == "meta":
                # metadata definition: skip to end of balanced braces/parens on this statement
                self.next()
                self.expect("=")
                self._skip_metadata_def()
            else:
                raise IRUnsupported(f"top-level token {k} {v}")
        return self.mod

    def _skip_metadata_def(self):
        # forms: !{...}  | distinct !{...} | !DIFile(...) etc.
        self.accept("distinct")
        k, v = self.next()
        if k == "meta":
            nk, nv = self.peek()
            if nv == "{":
                self._skip_balanced("{", "}")
            elif nv == "(":
                self._skip_balanced("(", ")")
        else:
            raise IRUnsupported("metadata form")

    def _skip_balanced(self, o, c):
        self.expect(o)
        depth = 1
        while depth:
            v = self.next()[1]
            if v == o:
                depth += 1
            elif v == c:
                depth -= 1

    def parse_global(self):
        name = self._unq(self.next()[1])
        self.expect("=")
        external = False
        constant = False
        while True:
            k, v = self.peek()
            if k == "word" and v in _LINKAGE:
                if v == "external" or v == "extern_weak":
                    external = True
                self.next()
            elif k == "word" and v in ("global", "constant"):
                constant = v == "constant"
                self.next()
                break
            elif k == "word" and v == "alias":
                raise IRUnsupported("alias")
            else:
                raise IRUnsupported(f"global header token {v}")
        ty = self.parse_type()
        init = None
        if not external:
            init = self.parse_const(ty)
        # trailing: , align N / , comdat / section "..."
        while self.accept(","):
            k, v = self.next()
            if v == "align":
                self.next()
            elif v == "comdat":
                if self.accept("("):
                    self.next()
                    self.expect(")")
            elif v == "section":
                self.next()
            elif k == "meta":
                self.next()
            else:
                raise IRUnsupported(f"global trailer {v}")
        if name == "llvm.global_ctors":
            if init is not None and init.kind == "array":
                entries = []
                for e in init.val:
                    prio = e.val[0].val
                    fn = e.val[1]
                    entries.append((prio, fn.val))
                entries.sort(key=lambda x: x[0])
                self.mod.ctors = [f for _, f in entries]
            return
        self.mod.globals[name] = GlobalVar(name, ty, init, constant, external)

    def _skip_fn_attrs(self):
        while True:
            k, v = self.peek()
            if k == "attr":
                self.next()
            elif k == "word" and v in ("comdat",):
                self.next()
                if self.accept("("):
                    self.next()
                    self.expect(")")
            elif k == "word" and v in ("align",):
                self.next()
                self.next()
            elif k == "word" and v == "section":
                self.next()
                self.next()
            elif k == "word" and v == "personality":
                self.next()
                t = self.parse_type()
                self.parse_const(t)
            elif k == "word" and v in _LINKAGE | {"nounwind", "noinline", "uwtable", "mustprogress",
                                                    "norecurse", "optnone", "readnone", "readonly",
                                                    "willreturn", "nofree", "nosync", "noreturn"}:
                self.next()
            elif k == "meta":
                self.next()
                if self.peek()[0] == "meta":
                    self.next()
            else:
                break

    def parse_function(self, define: bool):
        self.next()
        while True:
            k, v = self.peek()
            if k == "word" and (v in _LINKAGE or v in _PARAM_ATTRS or v in ("ccc", "fastcc")):
                self.next()
            elif k == "word" and v in ("align", "dereferenceable", "dereferenceable_or_null"):
                self._skip_param_attrs()
            else:
                break
        ret = self.parse_type()
        # function type parse may have swallowed "(...)"? no: name comes first
        name = self._unq(self.next()[1])
        self.expect("(")
        params = []
        vararg = False
        anon = 0
        while not self.accept(")"):
            if self.accept("..."):
                vararg = True
                self.accept(",")
                continue
            pt = self.parse_type()
            self._skip_param_attrs()
            k, v = self.peek()
            if k == "lid":
                self.next()
                pname = self._unq(v)
            else:
                pname = None
            params.append((pt, pname))
            self.accept(",")
        self._skip_fn_attrs()
        fn = Function(name, ret, params, declared_only=not define, vararg=vararg)
        if define:
            self.expect("{")
            self.parse_body(fn)
        if name in self.mod.functions and not define:
            return
        self.mod.functions[name] = fn

    # ---- function bodies
    def parse_body(self, fn: Function):
        # unnamed counter: params take numbers, then entry block takes next
        renum = []
        c = 0
        for pt, pname in fn.params:
            if pname is None:
                renum.append((pt, str(c)))
                c += 1
            else:
                renum.append((pt, pname))
                if pname.isdigit():
                    c = int(pname) + 1
        # note: named params do not consume numbers
        fn.params = renum
        counter = c
        cur = None
        # entry block label
        k, v = self.peek()
        if not (self.peek(1)[1] == ":" and k in ("int", "word", "str")):
            cur = Block(str(counter))
            fn.blocks[cur.name] = cur
            fn.order.append(cur.name)
        while True:
            k, v = self.peek()
            if v == "}":
                self.next()
                break
            if self.peek(1)[1] == ":" and k in ("int", "word", "str", "float"):
                self.next()
                self.next()
                lname = v[1:-1] if k == "str" else v
                cur = Block(lname)
                fn.blocks[lname] = cur
                fn.order.append(lname)
                continue
            ins = self.parse_instr()
            cur.instrs.append(ins)

    def _label(self) -> str:
        self.expect("label")
        return self._unq(self.next()[1])

    def _skip_instr_meta(self):
        while self.peek()[1] == ",":
            if self.peek(1)[0] == "meta":
                self.next()
                self.next()
                if self.peek()[0] == "meta":
                    self.next()
            elif self.peek(1)[1] == "align":
                self.next()
                self.next()
                self.next()
            else:
                break

    def parse_call_like(self, op, dest):
        # [tail] call [fast-math] [cconv] [ret attrs] <ty>|<fnty> <fnptrval>(<args>) [fn attrs]
        while True:
            k, v = self.peek()
            if k == "word" and (v in _FAST_MATH or v in ("ccc", "fastcc") or v in _PARAM_ATTRS):
                self.next()
            elif k == "word" and v in ("align", "dereferenceable", "dereferenceable_or_null"):
                self._skip_param_attrs()
            else:
                break
        rty = self.parse_type()
        if rty.kind == "func":
            fty = rty
            rty = fty.elem
        elif rty.kind == "ptr" and rty.elem.kind == "func":
            rty = rty.elem.elem
        k, v = self.next()
        if k == "gid":
            callee = Const(VOID, "global", self._unq(v))
        elif k == "lid":
            callee = Local(VOID, self._unq(v))
        elif k == "word" and v in _CASTS:
            self.i -= 1
            callee = self.parse_const(VOID)
        else:
            raise IRUnsupported(f"callee {k} {v}")
        self.expect("(")
        args = []
        while not self.accept(")"):
            args.append(self.parse_typed_value())
            self.accept(",")
        # fn attrs
        while True:
            k, v = self.peek()
            if k == "attr":
                self.next()
            elif k == "word" and v in ("nounwind", "noreturn", "readnone", "readonly", "builtin", "nobuiltin"):
                self.next()
            else:
                break
        ins = Instr(op, dest, rty, [callee] + args)
        if op == "invoke":
            self.expect("to")
            ins.extra["normal"] = self._label()
            self.expect("unwind")
            ins.extra["unwind"] = self._label()
        return ins

    def parse_instr(self) -> Instr:
        dest = None
        if self.peek()[0] == "lid" and self.peek(1)[1] == "=":
            dest = self._unq(self.next()[1])
            self.next()
        k, op = self.next()
        if k != "word":
            raise IRUnsupported(f"instruction token {k} {op}")
        ins = None
        if op in ("tail", "musttail", "notail"):
            k, op = self.next()
        if op == "call":
            ins = self.parse_call_like("call", dest)
        elif op == "invoke":
            ins = self.parse_call_like("invoke", dest)
        elif op in _BINOPS:
            flags = set()
            while self.peek()[1] in ("nsw", "nuw", "exact") or self.peek()[1] in _FAST_MATH:
                flags.add(self.next()[1])
            t = self.parse_type()
            a = self.parse_value(t)
            self.expect(",")
            b = self.parse_value(t)
            ins = Instr(op, dest, t, [a, b], {"flags": flags})
        elif op == "fneg":
            while self.peek()[1] in _FAST_MATH:
                self.next()
            t = self.parse_type()
            a = self.parse_value(t)
            ins = Instr(op, dest, t, [a])
        elif op in ("icmp", "fcmp"):
            while self.peek()[1] in _FAST_MATH:
                self.next()
            pred = self.next()[1]
            t = self.parse_type()
            a = self.parse_value(t)
            self.expect(",")
            b = self.parse_value(t)
            ins = Instr(op, dest, I1, [a, b], {"pred": pred})
        elif op in _CASTS:
            st = self.parse_type()
            a = self.parse_value(st)
            self.expect("to")
            dt = self.parse_type()
            ins = Instr(op, dest, dt, [a])
        elif op == "alloca":
            t = self.parse_type()
            n = None
            while self.accept(","):
                if self.accept("align"):
                    self.next()
                else:
                    nt = self.parse_type()
                    n = self.parse_value(nt)
            ins = Instr(op, dest, ptr_to(t), [n] if n is not None else [], {"elem": t})
        elif op == "load":
            self.accept("volatile")
            t = self.parse_type()
            self.expect(",")
            pt = self.parse_type()
            p = self.parse_value(pt)
            ins = Instr(op, dest, t, [p])
        elif op == "store":
            self.accept("volatile")
            t = self.parse_type()
            v = self.parse_value(t)
            self.expect(",")
            pt = self.parse_type()
            p = self.parse_value(pt)
            ins = Instr(op, None, VOID, [v, p])
        elif op == "getelementptr":
            inb = self.accept("inbounds")
            bt = self.parse_type()
            self.expect(",")
            pt = self.parse_type()
            p = self.parse_value(pt)
            idx = []
            while self.peek()[1] == "," and self.peek(1)[0] != "meta":
                self.next()
                it = self.parse_type()
                idx.append(self.parse_value(it))
            ins = Instr(op, dest, None, [p] + idx, {"base_ty": bt, "inbounds": inb})
        elif op == "br":
            if self.peek()[1] == "label":
                ins = Instr("br", None, VOID, [], {"dest": self._label()})
            else:
                t = self.parse_type()
                c = self.parse_value(t)
                self.expect(",")
                t1 = self._label()
                self.expect(",")
                t2 = self._label()
                ins = Instr("condbr", None, VOID, [c], {"true": t1, "false": t2})
        elif op == "switch":
            t = self.parse_type()
            v = self.parse_value(t)
            self.expect(",")
            default = self._label()
            self.expect("[")
            cases = []
            while not self.accept("]"):
                ct = self.parse_type()
                cv = self.parse_const(ct)
                self.expect(",")
                cases.append((cv.val, self._label()))
            ins = Instr("switch", None, VOID, [v], {"default": default, "cases": cases})
        elif op == "ret":
            t = self.parse_type()
            if t.kind == "void":
                ins = Instr("ret", None, VOID, [])
            else:
                ins = Instr("ret", None, t, [self.parse_value(t)])
        elif op == "phi":
            while self.peek()[1] in _FAST_MATH:
                self.next()
            t = self.parse_type()
            inc = []
            while True:
                self.expect("[")
                v = self.parse_value(t)
                self.expect(",")
                lbl = self._unq(self.next()[1])
                self.expect("]")
                inc.append((v, lbl))
                if self.peek()[1] == "," and self.peek(1)[1] == "[":
                    self.next()
                else:
                    break
            ins = Instr("phi", dest, t, [], {"incoming": inc})
        elif op == "select":
            while self.peek()[1] in _FAST_MATH:
                self.next()
            ct = self.parse_type()
            c = self.parse_value(ct)
            self.expect(",")
            t1 = self.parse_type()
            a = self.parse_value(t1)
            self.expect(",")
            t2 = self.parse_type()
            b = self.parse_value(t2)
            ins = Instr("select", dest, t1, [c, a, b])
        elif op == "extractvalue":
            t = self.parse_type()
            a = self.parse_value(t)
            idx = []
            while self.peek()[1] == "," and self.peek(1)[0] == "int":
                self.next()
                idx.append(int(self.next()[1]))
            ins = Instr(op, dest, None, [a], {"idx": idx, "agg_ty": t})
        elif op == "insertvalue":
            t = self.parse_type()
            a = self.parse_value(t)
            self.expect(",")
            vt = self.parse_type()
            v = self.parse_value(vt)
            idx = []
            while self.peek()[1] == "," and self.peek(1)[0] == "int":
                self.next()
                idx.append(int(self.next()[1]))
            ins = Instr(op, dest, t, [a, v], {"idx": idx})
        elif op == "landingpad":
            t = self.parse_type()
            self.accept("cleanup")
            while self.peek()[1] in ("catch", "filter"):
                self.next()
                ct = self.parse_type()
                self.parse_const(ct)
            ins = Instr(op, dest, t, [])
        elif op == "resume":
            t = self.parse_type()
            v = self.parse_value(t)
            ins = Instr(op, None, VOID, [v])
        elif op == "unreachable":
            ins = Instr(op, None, VOID, [])
        elif op == "freeze":
            t = self.parse_type()
            v = self.parse_value(t)
            ins = Instr("freeze", dest, t, [v])
        else:
            raise IRUnsupported(f"instruction {op}")
        self._skip_instr_meta()
        return ins


def parse_ir(text: str) -> Module:
    return Parser(text).parse_module()
