"""CrossHair harness (PEP316 contracts) around the real Reduino.transpile.parser._escape_string_literal.

The bound on len(s) is substituted by the check (placeholder MAXLEN).  c_unescape is a reference
lexer for a C++ ordinary string literal: it returns the literal's value, or None when the text is not
exactly one well-formed literal (early terminator, trailing characters, raw newline, bad escape).
"""
from typing import Optional

from Reduino.transpile.parser import _escape_string_literal

MAXLEN = 4
BS = chr(92)
DQ = chr(34)


def c_unescape(lit: str) -> Optional[str]:
    if len(lit) < 2 or lit[0] != DQ:
        return None
    out = []
    i = 1
    n = len(lit)
    while i < n:
        c = lit[i]
        if c == DQ:
            return "".join(out) if i == n - 1 else None
        if c == chr(10) or c == chr(13):
            return None
        if c == BS:
            if i + 1 >= n:
                return None
            d = lit[i + 1]
            if d == BS or d == DQ or d == chr(39) or d == "?":
                out.append(d)
            elif d == "n":
                out.append(chr(10))
            elif d == "t":
                out.append(chr(9))
            elif d == "r":
                out.append(chr(13))
            elif d == "0":
                out.append(chr(0))
            else:
                return None
            i += 2
            continue
        out.append(c)
        i += 1
    return None


def _printable(s: str) -> bool:
    for c in s:
        o = ord(c)
        if o < 32 or o == 127:
            return False
    return True


def escape_round_trip(s: str) -> bool:
    """
    pre: len(s) <= MAXLEN
    post: _ == True
    """
    lit = DQ + _escape_string_literal(s) + DQ
    back = c_unescape(lit)
    if back is None:
        # not a well-formed literal: the C++ compiler refuses it (loud) - only a raw line break may cause that
        return (chr(10) in s) or (chr(13) in s)
    return back == s


def escape_never_shrinks(s: str) -> bool:
    """
    pre: len(s) <= MAXLEN
    post: _ == True
    """
    e = _escape_string_literal(s)
    return len(e) >= len(s) and (BS in e) == ((BS in s) or (DQ in s))
