"""CrossHair harnesses around the real Reduino.toolchain.pio helpers."""
from typing import List

from Reduino.toolchain.pio import _format_lib_section, _sanitize_env_name

MAXLEN = 3
MAXN = 4


def _reference_entries(libs: List[str]) -> List[str]:
    out: List[str] = []
    for x in libs:
        if x and x not in out:
            out.append(x)
    return out


def _clean(libs: List[str]) -> bool:
    for x in libs:
        if len(x) > MAXLEN:
            return False
        for c in x:
            if c in (chr(10), chr(13)) or c == " ":
                return False
    return True


def lib_section_is_first_seen_dedup(libs: List[str]) -> bool:
    """
    pre: len(libs) <= MAXN
    pre: _clean(libs)
    post: _ == True
    """
    text = _format_lib_section(libs)
    want = _reference_entries(libs)
    if not want:
        return text == ""
    lines = text.split(chr(10))
    if lines[0] != "lib_deps =":
        return False
    got = [ln[2:] for ln in lines[1:]]
    return got == want and all(ln.startswith("  ") for ln in lines[1:])


