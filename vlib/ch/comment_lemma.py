"""CrossHair harness: the real _strip_inline_comment against a reference scanner."""
from Reduino.transpile.parser import _strip_inline_comment

MAXLEN = 5
ALPHABET = " #'" + chr(34) + chr(92) + "a:"


def _reference(text: str) -> str:
    """A '#' starts a comment unless it is inside a '...' or "..." literal (backslash escapes the next char)."""
    quote = ""
    i = 0
    n = len(text)
    while i < n:
        c = text[i]
        if c == chr(92):
            i += 2
            continue
        if quote:
            if c == quote:
                quote = ""
        elif c == "'" or c == chr(34):
            quote = c
        elif c == "#":
            return text[:i].rstrip()
        i += 1
    return text


def _in_alphabet(s: str) -> bool:
    for c in s:
        if c not in ALPHABET:
            return False
    return True


def strip_matches_reference(text: str) -> bool:
    """
    pre: len(text) <= MAXLEN
    pre: _in_alphabet(text)
    post: _ == True
    """
    return _strip_inline_comment(text) == _reference(text)
