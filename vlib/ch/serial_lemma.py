"""CrossHair harness: the real SerialMonitor.write with a recording backend, for arbitrary short texts and newlines."""
from typing import List

import Reduino.Communication as Cm
from Reduino.Communication import SerialMonitor

MAXLEN = 2


class _Port:
    def __init__(self, log: List[bytes]) -> None:
        self.log = log
        self.is_open = True

    def write(self, payload) -> None:
        self.log.append(payload)

    def close(self) -> None:
        self.is_open = False


class _Backend:
    def __init__(self, log: List[bytes]) -> None:
        self.log = log

    def Serial(self, **kw):
        return _Port(self.log)


class _Text:
    """An object whose str() is an arbitrary text (write() accepts any object)."""

    def __init__(self, t: str) -> None:
        self.t = t

    def __str__(self) -> str:
        return self.t


def _small(t: str) -> bool:
    for c in t:
        if c != "a" and c != chr(10) and c != chr(13):
            return False
    return True


def write_sends_text_plus_newline(text: str, newline: str, wrap: bool) -> bool:
    """
    pre: len(text) <= MAXLEN
    pre: len(newline) <= 2
    pre: _small(text) and _small(newline)
    post: _ == True
    """
    log: List[bytes] = []
    saved = getattr(Cm, "serial", None)
    Cm.serial = _Backend(log)
    try:
        mon = SerialMonitor(9600, "COM3", newline=newline)
        ret = mon.write(_Text(text) if wrap else text)
    finally:
        Cm.serial = saved
    if ret != text:
        return False
    if len(log) != 1:
        return False
    return log[0] == (text + newline).encode("utf-8")
