"""CrossHair harness: the real write_project against an in-memory file system whose *prior* contents are symbolic.

The file system is a small faithful model of what pathlib offers a text writer: text reads translate line endings
(universal newlines), text writes store the text as given (POSIX), directories are a set.  The claim is that the final
state of the project directory does not depend on what was there before, and that main.cpp is the source verbatim.
"""
from typing import Dict, Optional, Set

from Reduino.toolchain.pio import write_project

MAXLEN = 3


class FS:
    def __init__(self) -> None:
        self.files: Dict[str, str] = {}
        self.dirs: Set[str] = set()
        self.outside = False


class FakePath:
    def __init__(self, fs: FS, s: str) -> None:
        self.fs = fs
        self.s = s

    def _touch(self) -> None:
        if not (self.s == "/P" or self.s.startswith("/P/")):
            self.fs.outside = True

    def __truediv__(self, o):
        return FakePath(self.fs, self.s + "/" + str(o))

    def __str__(self) -> str:
        return self.s

    def __fspath__(self) -> str:
        return self.s

    @property
    def name(self) -> str:
        return self.s.rsplit("/", 1)[-1]

    @property
    def parent(self):
        return FakePath(self.fs, self.s.rsplit("/", 1)[0] or "/")

    def exists(self) -> bool:
        return self.s in self.fs.files or self.s in self.fs.dirs

    def is_file(self) -> bool:
        return self.s in self.fs.files

    def is_dir(self) -> bool:
        return self.s in self.fs.dirs

    def mkdir(self, mode=0o777, parents=False, exist_ok=False) -> None:
        self._touch()
        if self.s in self.fs.dirs and not exist_ok:
            raise FileExistsError(self.s)
        self.fs.dirs.add(self.s)

    def read_text(self, encoding=None, errors=None, newline=None) -> str:
        if self.s not in self.fs.files:
            raise FileNotFoundError(self.s)
        raw = self.fs.files[self.s]
        if newline is None:
            raw = raw.replace(chr(13) + chr(10), chr(10)).replace(chr(13), chr(10))
        return raw

    def read_bytes(self) -> bytes:
        if self.s not in self.fs.files:
            raise FileNotFoundError(self.s)
        return self.fs.files[self.s].encode("utf-8")

    def write_text(self, data, encoding=None, errors=None, newline=None) -> int:
        self._touch()
        self.fs.files[self.s] = data
        return len(data)

    def write_bytes(self, data) -> int:
        self._touch()
        self.fs.files[self.s] = data.decode("utf-8")
        return len(data)

    def unlink(self, missing_ok=False) -> None:
        self._touch()
        if self.s in self.fs.files:
            del self.fs.files[self.s]
        elif not missing_ok:
            raise FileNotFoundError(self.s)

    def touch(self, mode=0o666, exist_ok=True) -> None:
        self._touch()
        self.fs.files.setdefault(self.s, "")


def project_ignores_prior_state(src: str, prior_main: Optional[str], prior_ini: Optional[str]) -> bool:
    """
    pre: len(src) <= MAXLEN
    pre: prior_main is None or len(prior_main) <= MAXLEN
    pre: prior_ini is None or len(prior_ini) <= MAXLEN
    post: _ == True
    """
    fresh = FS()
    write_project(FakePath(fresh, "/P"), src, "COM3", lib_deps=["Servo"])
    used = FS()
    used.dirs.add("/P")
    if prior_main is not None:
        used.dirs.add("/P/src")
        used.files["/P/src/main.cpp"] = prior_main
    if prior_ini is not None:
        used.files["/P/platformio.ini"] = prior_ini
    write_project(FakePath(used, "/P"), src, "COM3", lib_deps=["Servo"])
    if used.outside or fresh.outside:
        return False
    if used.files.get("/P/src/main.cpp") != src:
        return False
    return used.files == fresh.files


def replay_project_ignores_prior_state(src, prior_main, prior_ini):
    """Concrete re-run used to confirm a counterexample."""
    return project_ignores_prior_state(src, prior_main, prior_ini)
