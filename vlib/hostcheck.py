"""Obligations over the real host-side Python code (pysym): claims on every path, replay on stock CPython."""
from __future__ import annotations

import os
import time
import z3

from . import pysym
from .common import Result


class Claims:
    """Collects named claims made by a body on the current path."""
    current = None

    def __init__(self):
        self.items = []

    def claim(self, name, cond):
        if not isinstance(cond, z3.ExprRef):
            cond = z3.BoolVal(bool(cond))
        self.items.append((name, cond))


def claim(name, cond):
    Claims.current.claim(name, cond)


def run_host_obligation(oid, body, *, max_paths=400, max_decisions=200, timeout_ms=30000,
                        describe="", allow_truncation=False, budget_s=None) -> Result:
    """body(hw) runs under pysym against a fresh HostWorld and calls claim(name, z3bool)."""
    t0 = time.time()
    eng = pysym.Engine(max_paths=max_paths, max_decisions=max_decisions, timeout_ms=timeout_ms)
    if budget_s is None:
        budget_s = float(os.environ.get("VERIF_OBLIGATION_BUDGET_S", "240"))
    eng.deadline = t0 + budget_s
    state = {"paths": 0, "claims": 0, "cex": None, "inconc": [], "statuses": {}}

    def fn():
        Claims.current = Claims()
        hw = pysym.HostWorld()
        body(hw)
        return Claims.current

    def on_path(out):
        state["paths"] += 1
        state["statuses"][out.status] = state["statuses"].get(out.status, 0) + 1
        if out.status.startswith("truncated") or out.status.startswith("unsupported"):
            state["inconc"].append(out.status + " " + str(out.notes[-1:] ))
            return
        if out.status == "raised":
            # body-level exception not caught by the body: treat as harness problem
            state["inconc"].append(f"uncaught {type(out.exc).__name__}: {out.exc}")
            return
        cl = out.result
        for name, cond in cl.items:
            state["claims"] += 1
            if state["cex"] is not None:
                return
            try:
                r, m = eng.model(z3.Not(cond))
            except pysym.PathAbort:
                state["inconc"].append(f"time budget exhausted before claim {name}")
                return
            if r == "unsat":
                continue
            if r == "unknown":
                state["inconc"].append(f"unknown: claim {name}")
                continue
            assign = {n: m.get(n) for n, v in out.inputs}
            state["cex"] = (name, assign)

    eng.explore(fn, on_path)
    res = Result(oid, "holds", queries=eng.stats["queries"], solver_s=eng.stats["solver_s"], paths=state["paths"])
    res.sample = {"obligation": oid, "what": describe, "paths": state["paths"], "claims_checked": state["claims"],
                  "path_statuses": state["statuses"]}
    if state["cex"] is not None:
        name, assign = state["cex"]
        # replay on stock CPython, no proxies
        ce = pysym.ConcreteEngine(assign)

        def rfn():
            Claims.current = Claims()
            hw = pysym.HostWorld(patched=False)
            body(hw)
            return Claims.current
        out = ce.run(rfn)
        failed = None
        if out.status == "ok":
            for n2, c2 in out.result.items:
                if z3.is_false(z3.simplify(c2)):
                    failed = n2
                    break
        if failed is not None:
            res.verdict = "violation"
            res.detail = f"claim '{failed}' fails on stock CPython with inputs {assign}"
            res.witness = {"claim": failed, "inputs": assign, "class": failed}
        else:
            res.verdict = "harness-error"
            res.detail = f"counterexample for '{name}' did not replay: inputs {assign}, replay status {out.status} {out.exc}"
        return res
    if state["claims"] == 0:
        res.verdict = "inconclusive"
        res.detail = "vacuous: no claim reached on any path; " + "; ".join(state["inconc"][:3])
        return res
    if state["inconc"] and not allow_truncation:
        res.verdict = "inconclusive"
        res.detail = "; ".join(state["inconc"][:4])
    res.solver_s = eng.stats["solver_s"]
    res.queries = eng.stats["queries"]
    return res
