"""C11 - transpiling never runs user code, has no side effects, fails only cleanly (partial claim).

evaluator/*  One inductive step of the REAL transpile-time evaluator (parser._eval_const.ev, reached through an isolated
             instance of the parser module whose `ast.parse` hands it a crafted tree): the root node's class, operator,
             callee name, arity, keyword use, f-string conversion etc. are solver-chosen, its leaves are constants with
             SYMBOLIC values (induction hypothesis: children evaluate to arbitrary values of the value sort or raise).
             Claims on every path: (i) every callable invoked is on the fixed whitelist (profiled with sys.setprofile),
             (ii) the outcome is a value of sort int|float|str|bool|list|tuple or an ordinary exception - never an
             internal-error type, (iii) promptness: an integer power with |base| > 1 and exponent > 64 is never
             computed (the only operator whose result size is super-linear in its operands).
regex/*      Promptness of line classification: for every regular expression of the transpiler (compiled module attributes
             and literals passed to re.* - read from the live source) z3's sequence/regex theory decides, per loop of
             Python's own parse tree of the pattern, whether some string is both ONE and SEVERAL iterations of the loop
             body (exponential ambiguity = catastrophic backtracking).  A finding is confirmed by timing the real engine
             on a pumped input in a subprocess.
sites/*      (concrete cross-check, outside the solver claim) hostile expressions in every argument position go through
             the real parse()+emit() in a fresh interpreter under an audit hook (open/exec/import/subprocess/socket/
             os.system), with planted canaries and a wall-clock limit: the outcome must be firmware or ValueError/
             SyntaxError, promptly, with no audited side effect.
"""
from __future__ import annotations

import ast
import json
import os
import subprocess
import sys
import time
import types

import z3

from .. import pysym
from ..common import Result, finish, run_obligations
from ..hostcheck import claim, run_host_obligation
from ..pysym import sym_int

BINOPS = [ast.Add, ast.Sub, ast.Mult, ast.Div, ast.FloorDiv, ast.Mod, ast.Pow, ast.BitAnd, ast.BitOr, ast.BitXor,
          ast.LShift, ast.RShift, ast.MatMult]
UNOPS = [ast.UAdd, ast.USub, ast.Not, ast.Invert]
CMPOPS = [[ast.Lt], [ast.Eq, ast.Gt], [ast.NotEq], [ast.LtE, ast.GtE], [ast.In], [ast.Is], [ast.NotIn]]
CALLEES = ["int", "float", "str", "bool", "len", "abs", "max", "min", "eval", "exec", "open", "__import__", "getattr",
           "print", "compile", "input", "globals", "breakpoint"]
OTHER = ["Attribute", "Subscript", "Lambda", "ListComp", "Dict", "Set", "Starred", "NamedExpr", "Await", "Yield",
         "GeneratorExp", "Slice", "SetComp", "DictComp", "YieldFrom"]
WHITELIST = {"ev", "_apply_bin", "<genexpr>", "<listcomp>", "isinstance", "len", "abs", "max", "min", "zip", "type", "str",
             "int", "float", "bool", "get", "append", "join", "add", "sub", "mul", "truediv", "floordiv", "mod", "pow",
             "and_", "or_", "xor", "lshift", "rshift", "eq", "ne", "lt", "le", "gt", "ge", "p_int", "p_float", "p_str",
             "p_bool", "PInt", "PFloat", "PStr", "__new__", "p_isinstance", "p_len", "_flatten_classes", "tuple", "list", "_eval_const", "parse", "iter", "next",
             "fake_parse", "rec", "rec_pow", "setprofile", "bit_length", "<lambda>", "_real_isinstance", "_real_len", "getattr", "hasattr", "items", "values", "keys"}
INTERNAL_ERRORS = (AttributeError, NameError, ImportError, KeyError, IndexError, AssertionError, UnboundLocalError)


def choose(name, options):
    i = sym_int(name, 0, len(options) - 1)
    return options[i.__index__() if pysym.is_sym(i) else i]


def leaf(name, kind="int"):
    if kind == "int":
        return ast.Constant(value=pysym.sym_int(name, -(1 << 31), 1 << 31))
    if kind == "float":
        return ast.Constant(value=pysym.sym_float(name))
    if kind == "str":
        return ast.Constant(value="txt")
    return ast.Constant(value=pysym.sym_bool(name))


def mk_root(kind):
    kinds = ["int", "float", "str"] if kind in ("BinOp", "Call", "Compare") else ["int", "float", "str", "bool"]
    lk = lambda n: leaf(n, choose("leafkind_" + n, kinds))   # noqa: E731
    if kind == "BinOp":
        return ast.BinOp(left=lk("a"), op=choose("binop", BINOPS)(), right=lk("b"))
    if kind == "UnaryOp":
        return ast.UnaryOp(op=choose("unop", UNOPS)(), operand=lk("a"))
    if kind == "BoolOp":
        return ast.BoolOp(op=choose("boolop", [ast.And, ast.Or])(), values=[lk("a"), lk("b")])
    if kind == "Compare":
        ops = choose("cmpops", CMPOPS)
        return ast.Compare(left=lk("a"), ops=[o() for o in ops], comparators=[lk(f"c{i}") for i in range(len(ops))])
    if kind == "IfExp":
        return ast.IfExp(test=lk("t"), body=lk("a"), orelse=lk("b"))
    if kind == "JoinedStr":
        conv = choose("conversion", [-1, 114, 115])
        spec = choose("format_spec", [None, "spec"])
        fv = ast.FormattedValue(value=lk("a"), conversion=conv,
                                format_spec=None if spec is None else ast.JoinedStr(values=[ast.Constant(value=">4")]))
        return ast.JoinedStr(values=[ast.Constant(value="p"), fv])
    if kind == "Call":
        callee = choose("callee", CALLEES)
        n = choose("nargs", [0, 1, 2])
        kw = choose("keywords", [0, 1])
        return ast.Call(func=ast.Name(id=callee, ctx=ast.Load()), args=[lk(f"arg{i}") for i in range(n)],
                        keywords=[ast.keyword(arg="base", value=lk("kw"))] if kw else [])
    if kind == "CallAttr":
        return ast.Call(func=ast.Attribute(value=ast.Name(id="os", ctx=ast.Load()), attr="system", ctx=ast.Load()),
                        args=[ast.Constant(value="echo PWNED")], keywords=[])
    if kind == "Name":
        return ast.Name(id=choose("name", ["K", "E", "L", "missing", "__builtins__", "len"]), ctx=ast.Load())
    if kind == "Seq":
        return choose("seq", [ast.Tuple, ast.List])(elts=[lk("a"), lk("b")], ctx=ast.Load())
    if kind == "OddConstant":
        return ast.Constant(value=choose("oddconst", [None, b"bytes", 1j, Ellipsis]))
    # every other expression class
    cls = choose("other", OTHER)
    a = ast.Constant(value=1)
    comp = [ast.comprehension(target=ast.Name(id="i", ctx=ast.Store()), iter=ast.Name(id="L", ctx=ast.Load()), ifs=[], is_async=0)]
    return {
        "Attribute": lambda: ast.Attribute(value=ast.Name(id="K", ctx=ast.Load()), attr="real", ctx=ast.Load()),
        "Subscript": lambda: ast.Subscript(value=ast.Name(id="L", ctx=ast.Load()), slice=a, ctx=ast.Load()),
        "Lambda": lambda: ast.Lambda(args=ast.arguments(posonlyargs=[], args=[], kwonlyargs=[], kw_defaults=[], defaults=[]), body=a),
        "ListComp": lambda: ast.ListComp(elt=a, generators=comp), "SetComp": lambda: ast.SetComp(elt=a, generators=comp),
        "DictComp": lambda: ast.DictComp(key=a, value=a, generators=comp), "GeneratorExp": lambda: ast.GeneratorExp(elt=a, generators=comp),
        "Dict": lambda: ast.Dict(keys=[a], values=[a]), "Set": lambda: ast.Set(elts=[a]),
        "Starred": lambda: ast.Starred(value=a, ctx=ast.Load()), "NamedExpr": lambda: ast.NamedExpr(target=ast.Name(id="w", ctx=ast.Store()), value=a),
        "Await": lambda: ast.Await(value=a), "Yield": lambda: ast.Yield(value=a), "YieldFrom": lambda: ast.YieldFrom(value=a),
        "Slice": lambda: ast.Slice(lower=a, upper=None, step=None),
    }[cls]()


ROOT_KINDS = ["BinOp", "UnaryOp", "BoolOp", "Compare", "IfExp", "JoinedStr", "Call", "CallAttr", "Name", "Seq", "OddConstant", "Other"]


def evaluator_body(kind):
    def body(_hw):
        pow_calls = []
        import operator as real_op

        def rec_pow(a, b):
            e = pysym.eng()
            if pysym.is_sym(a) or pysym.is_sym(b):
                try:
                    big = z3.And(pysym.zint(b) > 64, z3.Or(pysym.zint(a) > 1, pysym.zint(a) < -1))
                    if isinstance(e, pysym.ConcreteEngine):
                        pow_calls.append(bool(z3.is_true(z3.simplify(big))))
                    else:
                        pow_calls.append(e.check(big) != "unsat")
                        e.assume(z3.Not(big))
                except pysym.Unsupported:
                    pass
            elif isinstance(a, int) and isinstance(b, int):
                pow_calls.append(abs(a) > 1 and b > 64)
                if abs(a) > 1 and b > 64:
                    return 0
            return real_op.pow(a, b)
        fake_op = types.SimpleNamespace(**{n: getattr(real_op, n) for n in dir(real_op) if not n.startswith("__")})
        fake_op.pow = rec_pow
        root_box = {}

        def fake_parse(src, *a, **k):
            return types.SimpleNamespace(body=root_box["root"])
        fake_ast = types.SimpleNamespace(**{n: getattr(ast, n) for n in dir(ast) if not n.startswith("__")})
        fake_ast.parse = fake_parse
        hw = pysym.HostWorld(stub_top=True, overrides={"ast": fake_ast, "operator": fake_op})
        P = hw.load("Reduino.transpile.parser")
        root = mk_root(kind)
        root_box["root"] = root
        env = {"K": 7, "E": P._ExprStr("expr"), "L": [1, 2]}
        called = []

        def prof(frame, event, arg):
            # callables invoked *by the evaluator's own frames* (parser.py), python-level or C-level
            if event == "call":
                back = frame.f_back
                if back is not None and back.f_code.co_filename.endswith("transpile/parser.py"):
                    called.append(frame.f_code.co_name)
            elif event == "c_call":
                if frame.f_code.co_filename.endswith("transpile/parser.py"):
                    called.append(getattr(arg, "__name__", str(arg)))
        outcome = exc = None
        sys.setprofile(prof)
        try:
            try:
                outcome = P._eval_const("<crafted>", env)
            except Exception as e:     # noqa: BLE001
                exc = e
        finally:
            sys.setprofile(None)
        if isinstance(exc, pysym.Unsupported):
            # an arithmetic the proxies do not model (float %, float **): python's own semantics, not the
            # evaluator's dispatch - the call whitelist up to that point is still checked
            bad0 = sorted({c for c in called if c not in WHITELIST and not c.startswith("__") and not c.startswith("_real_")})
            claim("only whitelisted callables run during transpile-time evaluation" + (f": {bad0}" if bad0 else ""), not bad0)
            claim("no integer power with exponent > 64 is computed at transpile time", not any(pow_calls))
            return
        bad = sorted({c for c in called if c not in WHITELIST and not c.startswith("__") and not c.startswith("_real_")})
        claim("only whitelisted callables run during transpile-time evaluation" + (f": {bad}" if bad else ""), not bad)
        if exc is not None:
            claim(f"failure is an ordinary exception, not an internal error ({type(exc).__name__})",
                  not isinstance(exc, INTERNAL_ERRORS))
        else:
            ok = isinstance(outcome, (int, float, str, bool, list, tuple)) or pysym.is_sym(outcome)
            claim(f"result has the value sort ({type(outcome).__name__})", ok)
        claim("no integer power with exponent > 64 is computed at transpile time", not any(pow_calls))
    return body


# ------------------------------------------------------------------ hostile corpus through the real pipeline
SITE_PROG = r'''
import sys, json, time
events = []
ARMED = [False]
def hook(name, args):
    if not ARMED[0]:
        return
    if name in ("open", "exec", "os.system", "subprocess.Popen", "socket.connect", "socket.bind", "os.remove", "os.rename",
                "shutil.rmtree", "os.mkdir", "urllib.Request", "os.putenv", "os.unsetenv") or name == "import":
        if name == "import" and (args[0] or "").split(".")[0] in ("Reduino", "encodings", "codecs"):
            return
        if name == "open" and isinstance(args[0], str) and (args[0].endswith(".pyc") or "__pycache__" in args[0]
                                                             or args[0].startswith("<")):
            return      # the interpreter looks up source lines for "<unknown>"/"<string>" when it builds a SyntaxError
        events.append([name, str(args[0])[:60]])
sys.addaudithook(hook)
from Reduino.transpile.parser import parse
from Reduino.transpile.emitter import emit
import Reduino.transpile.parser as P
def sig(v):
    try:
        return (len(v), repr(sorted(map(str, v)))[:300] if isinstance(v, (dict, set)) else repr(v)[:300])
    except Exception:
        return (len(v), "<unprintable>")
import Reduino.transpile.emitter as E
def snap():
    out = {}
    for mod in (P, E):
        for k, v in vars(mod).items():
            if k.startswith("__") or k == "_VERIF_IGNORED":
                continue
            key = mod.__name__.rsplit(".", 1)[-1] + "." + k
            if isinstance(v, (dict, list, set)):
                out[key] = sig(v)
            elif v is None or isinstance(v, (int, float, str, bool, tuple, frozenset)):
                out[key] = repr(v)[:300]
            elif hasattr(v, "cache_info"):
                out[key] = "cache size " + str(v.cache_info().currsize)
    return out
state_before = snap()
cases = json.loads(sys.stdin.read())
out = []
for src in cases:
    t = time.time()
    ARMED[0] = True
    try:
        emit(parse(src)); r = "ok"
    except ValueError: r = "ValueError"
    except SyntaxError: r = "SyntaxError"
    except BaseException as e: r = "ESCAPES " + type(e).__name__
    ARMED[0] = False
    out.append([r, round(time.time() - t, 2), list(events)])
    del events[:]
state_after = snap()
print(json.dumps({"results": out, "state_changed": [k for k in state_before if state_before[k] != state_after.get(k)]}))
'''
HOSTILE = ["__import__('os').system('touch /tmp/reduino_canary')", "open('/tmp/reduino_canary','w').write('x')", "eval('1+1')",
           "exec('import os')", "(lambda: 1)()", "[c for c in ().__class__.__base__.__subclasses__()]", "9**9**9", "1/0", "-'5'",
           "max(1,'a')", "int('x')", "1e999", "float('nan')", "10**400", "1 << 100000", "'a' * 10**9", "len(5)", "min()",
           "[250, 250]", "{1: 2}", "x.__class__", "getattr(led, 'pin')", "compile('1','f','eval')", "globals()", "1 if 1/0 else 2",
           "f'{1/0}'", "f'{open}'", "not []", "~1.5", "2 @ 3", "(yield)", "await x", "*[1]", "a := 5", "b'\\x00'", "1j", "...",
           "(1,)", "()", "[]", "(1, 2, 3)", "-1e999", "None", "'A0'", "1e308 * 10", "True", "[[1]]"]
POSITIONS = {
    "sleep": "sleep({e})", "pin": "led2 = Led({e})", "brightness": "led.set_brightness({e})", "blink_kw": "led.blink(10, times={e})",
    "condition": "if {e}:\n    sleep(1)", "while": "while {e}:\n    sleep(1)", "range": "for i in range({e}):\n    sleep(1)",
    "list_item": "xs = [1, {e}]", "assign": "x = {e}", "fstring": "mon.write(f'v={{{e}}}')", "write": "mon.write({e})",
    "default": "def f(a={e}):\n    return a\nsleep(f())", "decorator": "@{e}\ndef g():\n    return 1\nsleep(g())",
    "pattern": "led.flash_pattern({e})", "rgb": "rgb.set_color({e}, 0, 0)", "servo_kw": "s = Servo(9, min_angle={e})",
    "lcd_glyph": "lcd.glyph(0, {e})", "ultra_model": "u = Ultrasonic(2, 3, sensor={e})", "tone": "bz.play_tone({e})",
    "index": "ys = [1, 2]\nsleep(ys[{e}])", "call_arg": "def h(a):\n    return a\nsleep(h({e}))",
    "tuple_unpack": "u1, u2 = {e}", "tuple_unpack_declared": "p, q = {e}", "buzzer_pin": "bz2 = Buzzer({e})",
    "buzzer_default": "bz3 = Buzzer(9, default_frequency={e})", "servo_pin": "s2 = Servo({e})", "button_pin": "b2 = Button({e})",
    "pot_pin": "pot = Potentiometer({e})", "lcd_addr": "lcd2 = LCD(i2c_addr={e})", "lcd_cols": "lcd3 = LCD(i2c_addr=0x3F, cols={e})",
    "rgb_pin": "rgb2 = RGBLed({e}, 5, 6)", "motor_pin": "m2 = DCMotor({e}, 7, 11)", "motor_speed": "m3 = DCMotor(4, 7, 11)\nm3.set_speed({e})",
    "sweep": "bz.sweep({e}, 800, duration_ms=100, steps=3)", "melody_tempo": "bz.melody('success', tempo={e})",
    "lcd_write": "lcd.write({e}, 0, 'x')", "lcd_progress": "lcd.progress(0, {e}, max_value=10)", "serial_baud": "mon2 = SerialMonitor({e})",
    "splat_kw_assign": "sv = digital_read(2, **{e})", "splat_kw_cond": "if analog_read(**{e}):\n    sleep(1)",
    "splat_kw_while": "while digital_read(**{e}):\n    sleep(1)", "splat_kw_stmt": "digital_write(13, **{e})",
    "splat_args_core": "analog_write(*{e})", "splat_pin_mode": "pm = pin_mode(**{e})", "splat_device_args": "led.blink(*{e})",
    "splat_device_kw": "led.blink(10, **{e})", "splat_ctor": "led3 = Led(**{e})", "splat_sleep": "sleep(*{e})",
    "aug": "p += {e}", "return": "def r():\n    return {e}\nsleep(r())", "list_append": "zs.append({e})",
}
SITE_HDR = ('from Reduino.Actuators import Led, RGBLed, Servo, Buzzer\nfrom Reduino.Utils import sleep\nfrom Reduino.Sensors import Ultrasonic, Button, Potentiometer\nfrom Reduino.Actuators import DCMotor\nfrom Reduino.Core import pin_mode, digital_read, digital_write, analog_read, analog_write, OUTPUT, HIGH\n'
            'from Reduino.Displays import LCD\nfrom Reduino.Communication import SerialMonitor\nmon = SerialMonitor(9600, "COM3")\n'
            'led = Led(13)\nrgb = RGBLed(3, 5, 6)\nbz = Buzzer(8)\nlcd = LCD(i2c_addr=0x27)\n'
            # statements that make the transpiler allocate names / counters / environments before the hostile line
            'p = 1\nq = 2\np, q = q, p\nzs = [1, 2]\nzs.append(3)\nsq = [i * i for i in range(3)]\n'
            'def helper(v):\n    return v + 1\nif p > 1:\n    hoisted = 1\nelse:\n    hoisted = 2\n')


WHOLE_SCRIPTS = {
    "chain_3000_literals": "x = " + "1 + " * 3000 + "1\n",
    "chain_1500_names": "a = 1\nx = " + "a + " * 1500 + "a\n",
    "chain_40_mixed": "a = 1\nx = " + " + ".join(["a * 2", "3"] * 20) + "\nsleep(x)\n",
    "parens_300": "x = " + "(" * 300 + "1" + ")" * 300 + "\n",
    "helper_recursing_on_growing_list": "def f(x):\n    return f([x])\ny = f(1)\n",
    "helper_self_recursion": "def g(n):\n    if n <= 0:\n        return 0\n    return g(n - 1) + 1\nsleep(g(3))\n",
    "repeated_squaring_26": "v = 3\n" + "v = v * v\n" * 26,
    "repeated_doubling_shift": "v = 1\n" + "v = v << v\n" * 6,
    "repeated_pow": "v = 2\n" + "v = v ** v\n" * 5,
    "nested_ifs_60": "".join(" " * (4 * i) + "if p > 0:\n" for i in range(60)) + " " * 240 + "sleep(1)\n",
    "nested_loops_30": "".join(" " * (4 * i) + f"for i{i} in range(2):\n" for i in range(30)) + " " * 120 + "sleep(1)\n",
    "long_line_200k": "x = '" + "a" * 200000 + "'\n",
    "many_lines_5000": "sleep(1)\n" * 5000,
    "string_mul": "x = 'ab' * 1000000000\n",
    "list_mul": "xs = [1] * 1000000000\n",
    "unbalanced": "x = (1 +\nsleep(1)\n",
    "only_backslash": "x = 1 + \\\n",
    "nul_byte": "x = 1\x00\n",
    "tabs_and_spaces": "if p > 0:\n\tsleep(1)\n        sleep(2)\n",
}


def site_obligation(item):
    _, oid, pos, tpl = item
    res = Result(oid, "holds", nontrivial=False)
    if pos == "whole_script":
        names = list(WHOLE_SCRIPTS)
        cases = [SITE_HDR + WHOLE_SCRIPTS[k] for k in names]
        labels = names
    else:
        cases = [SITE_HDR + tpl.format(e=e) + "\n" for e in HOSTILE]
        labels = HOSTILE
    for canary in ("/tmp/reduino_canary",):
        if os.path.exists(canary):
            os.unlink(canary)
    try:
        r = subprocess.run([sys.executable, "-c", SITE_PROG], input=json.dumps(cases), capture_output=True, text=True,
                           timeout=60 + 6 * len(cases))
    except subprocess.TimeoutExpired:
        res.verdict = "violation"
        res.detail = f"transpiling hostile expressions in position '{pos}' did not terminate promptly"
        res.witness = {"position": pos, "class": "hang"}
        return res
    try:
        data = json.loads(r.stdout)
    except Exception:     # noqa: BLE001
        res.verdict, res.detail = "harness-error", (r.stderr or r.stdout)[-300:]
        return res
    res.queries = len(cases)
    res.sample = {"obligation": oid, "template": tpl, "expressions": len(HOSTILE)}
    for e, (outcome, secs, events) in zip(labels, data["results"]):
        problem = None
        if outcome.startswith("ESCAPES"):
            problem = f"{outcome[8:]} escapes parse()/emit()"
        elif events:
            problem = f"side effect during transpilation: {events[0]}"
        elif secs > 5:
            problem = f"took {secs}s"
        if problem:
            res.verdict = "violation"
            res.detail = f"position '{pos}', expression {e!r}: {problem}"
            res.witness = {"position": pos, "expression": e, "class": problem.split(":")[0][:40]}
            return res
    if os.path.exists("/tmp/reduino_canary"):
        res.verdict = "violation"
        res.detail = f"canary file created while transpiling position '{pos}'"
        res.witness = {"position": pos, "class": "canary"}
        os.unlink("/tmp/reduino_canary")
    elif data.get("state_changed"):
        res.verdict = "violation"
        res.detail = f"module-level state changed by transpiling: {data['state_changed']}"
        res.witness = {"position": pos, "class": "state"}
    return res


def live_patterns():
    """(name, pattern, flags) of every regular expression of the transpiler: compiled module attributes and string
    literals passed to re.* inside function bodies (read from the current source)."""
    import re as _re
    import Reduino.transpile.parser as P
    import Reduino.transpile.emitter as E
    import Reduino as R
    out = []
    for mod in (P, E, R):
        short = mod.__name__.rsplit(".", 1)[-1]
        for k, v in sorted(vars(mod).items()):
            if isinstance(v, _re.Pattern):
                out.append((f"{short}.{k}", v.pattern, v.flags & ~_re.UNICODE))
        try:
            tree = ast.parse(open(mod.__file__).read())
        except OSError:
            continue
        n = 0
        for node in ast.walk(tree):
            if (isinstance(node, ast.Call) and isinstance(node.func, ast.Attribute) and isinstance(node.func.value, ast.Name)
                    and node.func.value.id == "re" and node.args and isinstance(node.args[0], ast.Constant)
                    and isinstance(node.args[0].value, str) and node.func.attr in
                    ("compile", "match", "search", "fullmatch", "sub", "subn", "split", "findall", "finditer")):
                pat = node.args[0].value
                if not any(p == pat for _, p, _ in out):
                    n += 1
                    out.append((f"{short}.<inline:{node.lineno}>", pat, 0))
    return out


TIMING_PROG = '''
import re, sys, json, time
pat, flags, cands = json.loads(sys.stdin.read())
rx = re.compile(pat, flags)
for c in cands:
    t = time.time()
    rx.match(c); rx.search(c)
    print(json.dumps([c, time.time() - t]), flush=True)
'''


def regex_obligation(item):
    """z3 (sequence/regex theory): no loop of the live pattern is exponentially ambiguous; a finding is confirmed by
    timing the real `re` engine on a pumped input in a subprocess."""
    from .. import resym
    _, oid, pat, flags = item
    res = Result(oid, "holds")
    try:
        findings, q, unknown = resym.ambiguous_loops(pat, flags)
    except resym.Unsupported as e:
        res.verdict, res.detail = "inconclusive", f"pattern outside the translated regex subset: {e}"
        return res
    res.queries = q
    res.nontrivial = q > 0
    res.sample = {"obligation": oid, "pattern": pat, "loops_queried": q}
    if unknown:
        res.verdict, res.detail = "inconclusive", f"unknown for loops {unknown}"
    for where, w in findings:
        cands = resym.pumped_inputs(pat, w, flags, k=34)
        slow = None
        try:
            r = subprocess.run([sys.executable, "-c", TIMING_PROG], input=json.dumps([pat, flags, cands]), capture_output=True,
                               text=True, timeout=8)
            for ln in r.stdout.splitlines():
                c, dt = json.loads(ln)
                if dt > 2:
                    slow = (c, dt)
        except subprocess.TimeoutExpired as e:
            done = len((e.stdout or b"").splitlines()) if e.stdout else 0
            slow = (cands[min(done, len(cands) - 1)], 8.0) if cands else None
        if slow:
            res.verdict = "violation"
            res.detail = (f"catastrophic backtracking: the loop at {where} of {oid} reads {w!r} both as one and as several "
                          f"iterations; matching a {len(slow[0])}-character line did not finish within {slow[1]:.0f}s")[:400]
            res.witness = {"pattern": pat, "loop": where, "ambiguous_string": w, "slow_input": slow[0], "class": "redos"}
            return res
        res.verdict = "inconclusive"
        res.detail = f"loop at {where} is exponentially ambiguous on {w!r} (solver) but no slow input was constructed"
    return res


def _work(item):
    if item[0] == "regex":
        return regex_obligation(item)
    if item[0] == "eval":
        return run_host_obligation(item[1], evaluator_body(item[2]), max_paths=20000, max_decisions=200, budget_s=600,
                                   describe="one step of the real _eval_const.ev on a solver-shaped node with symbolic leaves")
    return site_obligation(item)


def run(tier, seed, only=None):
    t0 = time.time()
    items = [("eval", f"evaluator/{k}", k) for k in ROOT_KINDS]
    items += [("site", f"sites/{pos}", pos, tpl) for pos, tpl in POSITIONS.items()]
    items.append(("site", "sites/whole_script", "whole_script", ""))
    items += [("regex", f"regex/{name}", pat, flags) for name, pat, flags in live_patterns()]
    items.append(("regex", "regex/self-test(must be found)", r"^x(?:a|aa)*y$", 0))
    if only:
        items = [i for i in items if only in i[1]]
    results = run_obligations(items, _work)
    # reachability twin of the regex query: the deliberately ambiguous pattern must come back as a violation
    for r in results:
        if r.oid == "regex/self-test(must be found)":
            if r.verdict == "violation":
                r.verdict, r.detail, r.witness = "holds", "", None
            else:
                r.verdict, r.detail = "harness-error", "the ambiguous-loop query failed to flag (a|aa)*"
    return finish(
        "C11", "other", tier, seed, results, t0,
        explanation="Inductive step over the real whitelist evaluator: an isolated instance of the parser module receives, "
                    "instead of ast.parse's result, a crafted expression tree whose root class/operator/callee/arity are "
                    "solver-chosen and whose leaves are constants with symbolic int/float/bool values; on every path the "
                    "set of callables invoked (profiled) must be inside the fixed whitelist, the outcome must be a value of "
                    "the value sort or an ordinary exception, and no integer power with exponent > 64 may be computed "
                    "(promptness).  regex/*: no loop of any live regular expression is exponentially ambiguous (z3 regex theory; "
                    "a finding is confirmed by timing the real engine).  The sites/* obligations are a concrete cross-check (hostile corpus x argument "
                    "positions through parse()/emit() under an audit hook, canaries, state diff, wall-clock limit).",
        functions_encoded=["Reduino.transpile.parser._eval_const.ev / _apply_bin (pysym, crafted trees)",
                           "every re.Pattern / re.* literal of parser.py, emitter.py, Reduino/__init__.py (z3 regex terms)",
                           "parse()+emit() (concrete, audited subprocess)"],
        bounds={"tree depth": "1 (inductive step; children are leaves)", "root kinds": len(ROOT_KINDS), "hostile expressions": len(HOSTILE),
                "positions": len(POSITIONS)},
        assumptions=["absence of file/process/network access and robustness on arbitrary byte noise are only cross-checked "
                     "concretely (audit hook), not solver-quantified", "children of the crafted root evaluate to values of the "
                     "value sort (induction hypothesis)"],
        stubs=["ast.parse -> crafted tree", "operator.pow -> recording wrapper"],
    )


def replay(path):
    print(json.dumps(json.load(open(path)), indent=1)[:4000])
    return 0
