"""C06 - accepted scripts always yield well-formed, compilable Arduino C++.

(a) Every skeleton of every family (core language, type flow, folding, actuators, setup/loop split, feature
    scripts covering all devices/helpers/lists/functions/try) that the transpiler accepts is passed through
    the real C++ front end (clang++ -fsyntax-only, then full lowering to IR against the mock core that
    declares only the documented Arduino surface); setup() and loop() must each be defined exactly once.
    This verdict is the compiler's, not a solver's: it is the mandatory first stage of the symbolic
    pipeline every other firmware property depends on, reported here instead of hidden.
(b) Solver part: CrossHair (symbolic execution of the real `_escape_string_literal` with z3) checks, for every
    printable string up to the bound, that a reference C++ string-literal lexer reads back exactly the
    original text from '"' + escaped + '"'.
"""
from __future__ import annotations

import os
import time

from .. import lower, skeletons
from ..common import Result, finish, run_obligations
from ..crosshair_run import run_crosshair
from ..lower import VERIF


def all_scripts(tier):
    from . import c04, c05
    fam = []
    fam += skeletons.expr_family() + skeletons.stmt_family(tier) + skeletons.types_family(tier) + skeletons.fold_family(tier)
    fam += [("step/" + o, s) for o, s, _, _ in c04.equivalence_family(tier)]
    fam += [("split/" + k, v) for k, v in c05.skeletons(tier).items()]
    fam += skeletons.feature_family()
    fam += skeletons.ctx_family(tier)
    return fam


def compile_obligation(item) -> Result:
    oid, src = item
    res = Result("compile/" + oid, "holds", nontrivial=False)
    res.sample = {"obligation": res.oid, "script": src}
    try:
        cpp = lower.transpile(src)
    except (ValueError, SyntaxError) as e:
        res.detail = "rejected by the transpiler (allowed): " + str(e)[:120]
        res.extra["rejected"] = True
        return res
    except Exception as e:
        res.verdict = "violation"
        res.detail = f"transpiler crashed: {type(e).__name__}: {e}"[:300]
        res.witness = {"script": src, "class": "internal-error"}
        return res
    ok, err = lower.syntax_check(cpp, tag="c06")
    if ok:
        try:
            mod = lower.lower_cpp(cpp, tag="c06l")
            n_setup = sum(1 for f in mod.functions.values() if f.name == "_Z5setupv" and not f.declared_only)
            n_loop = sum(1 for f in mod.functions.values() if f.name == "_Z4loopv" and not f.declared_only)
            if n_setup != 1 or n_loop != 1:
                ok, err = False, f"setup() defined {n_setup} times, loop() {n_loop} times"
        except lower.CompileError as e:
            ok, err = False, e.output
    if not ok:
        first = [ln for ln in err.split("\n") if "error" in ln][:1]
        res.verdict = "violation"
        res.detail = "accepted script yields C++ the front end rejects: " + (first[0] if first else err[:200])[:300]
        msg = (first[0] if first else err[:200])
        msg = msg.split("error:")[-1].strip()
        import re
        res.witness = {"script": src, "class": re.sub(r"'[^']*'", "'_'", msg)[:80], "compiler": err[:1500]}
    return res


def lemma_obligation(item) -> Result:
    _, maxlen, pct = item
    res = Result(f"lemma/escape_string_literal[len<={maxlen}]", "holds")
    t0 = time.time()
    report, raw, dt = run_crosshair(os.path.join(VERIF, "vlib", "ch", "escape_lemma.py"), {"MAXLEN": maxlen},
                                    per_condition_timeout=pct, total_timeout=pct * 4 + 60)
    res.solver_s = dt
    res.queries = 2
    res.sample = {"obligation": res.oid, "contracts": {k: v[0] for k, v in report.items()}, "engine": "crosshair-tool"}
    want = ("escape_round_trip", "escape_never_shrinks")
    for fn in want:
        st, msg = report.get(fn, ("inconclusive", "no report line"))
        if st == "refuted":
            # replay natively
            import re as _re
            from ..ch import escape_lemma as real
            m = _re.search(r"calling \w+\((.*?)\)(?: \(which|\s*$)", msg)
            arg = None
            if m:
                try:
                    arg = eval(m.group(1), {"__builtins__": {}})
                except Exception:
                    arg = None
            if isinstance(arg, tuple):
                arg = arg[0]
            if isinstance(arg, str) and getattr(real, fn)(arg) is not True:
                res.verdict = "violation"
                res.detail = f"{fn} fails for {arg!r}: C++ literal {chr(34) + real._escape_string_literal(arg) + chr(34)!r}"
                res.witness = {"input": arg, "class": fn}
                return res
            res.verdict = "harness-error"
            res.detail = f"crosshair counterexample did not replay: {msg}"
            return res
        if st != "confirmed":
            res.verdict = "inconclusive"
            res.detail = f"{fn}: {msg}"[:200]
    return res


def _work(item):
    if item[0] == "lemma":
        return lemma_obligation(item)
    return compile_obligation(item)


def run(tier, seed, only=None):
    t0 = time.time()
    items = list(all_scripts(tier))
    items.append(("lemma", 4 if tier == "quick" else 6, 60 if tier == "quick" else 600))
    if only:
        items = [i for i in items if only in str(i[0]) or (i[0] == "lemma" and only in "lemma")]
    results = run_obligations(items, _work)
    rejected = sum(1 for r in results if r.extra.get("rejected"))
    return finish(
        "C06", "other", tier, seed, results, t0,
        explanation="(a) compiler front-end acceptance (clang++-14 -fsyntax-only and full lowering) of the C++ emitted for every "
                    "accepted skeleton of every family, against mock headers that declare only the documented Arduino/"
                    "Servo/LiquidCrystal surface - a front-end verdict, not a solver verdict, reported because it is the first "
                    "stage of every symbolic firmware check; (b) CrossHair (z3) over the real _escape_string_literal: for all "
                    "printable strings up to the bound a reference C++ literal lexer reads back the original text.",
        functions_encoded=["Reduino.transpile.parser._escape_string_literal (CrossHair)", "emit(parse(src)) text (clang front end)"],
        bounds={"escape lemma": f"len(s) <= {4 if tier == 'quick' else 6}, printable (no control characters)",
                "scripts": len(items) - 1, "rejected by the transpiler (allowed)": rejected},
        assumptions=["the mock core declares the documented API only; real AVR headers/toolchain (no <cstring>, -fno-exceptions) "
                     "are outside the claim, as is any program outside the enumerated families",
                     "CrossHair 'Confirmed over all paths' within --per_condition_timeout; anything else is inconclusive"],
        rule="evaluations = compiler runs + CrossHair conditions; distinct_nontrivial counts only the solver-decided lemma "
             "obligations (compiler acceptance is not a solver query)",
        extra_cov={"exhaustive": False},
    )


def replay(path):
    import json
    print(json.dumps(json.load(open(path)), indent=1)[:4000])
    return 0
