"""C14 - library deps, #includes and instantiated library classes always agree.

The real `_collect_required_libraries`/`_program_contains` (Reduino/__init__.py) and the real `emit` are
executed under pysym on `Program` objects whose *shape* is symbolic: the number of device slots, each
slot's kind (Servo, parallel LCD, I2C LCD, Led, nothing), its placement (prologue, top of the main-loop body,
or nested inside an if in the prologue) are solver-chosen integers, so every feasible shape within the bound is
one path.  The claim per path: library requested <=> header included (once) <=> a global of that library
class is defined.  The same shapes rendered as script text go through the real parse() (parser link) and the
emitted C++ through the compiler front end.
"""
from __future__ import annotations

import re
import time
import types

import z3

from .. import lower, pysym
from ..common import Result, finish, run_obligations
from ..hostcheck import claim, run_host_obligation
from ..pysym import sym_int

KINDS = ("none", "servo", "lcd_parallel", "lcd_i2c", "led")
LIB = {"servo": "Servo", "lcd_parallel": "LiquidCrystal", "lcd_i2c": "LiquidCrystal_I2C"}
HEADER = {"Servo": "#include <Servo.h>", "LiquidCrystal": "#include <LiquidCrystal.h>",
          "LiquidCrystal_I2C": "#include <LiquidCrystal_I2C.h>"}
CLASSDEF = {"Servo": r"^Servo\s+\w+;", "LiquidCrystal": r"^LiquidCrystal\s+\w+\(", "LiquidCrystal_I2C": r"^LiquidCrystal_I2C\s+\w+\("}


def consistency(cpp, libs):
    """-> list of problems for one emitted text and its requested library list"""
    problems = []
    for lib in ("Servo", "LiquidCrystal", "LiquidCrystal_I2C"):
        requested = libs.count(lib)
        included = cpp.count(HEADER[lib])
        defined = len(re.findall(CLASSDEF[lib], cpp, flags=re.M))
        if requested > 1:
            problems.append(f"{lib} requested {requested} times")
        if included > 1:
            problems.append(f"{HEADER[lib]} included {included} times")
        if (requested > 0) != (included > 0):
            problems.append(f"{lib}: requested={requested > 0} but header included={included > 0}")
        if (included > 0) != (defined > 0):
            problems.append(f"{lib}: header included={included > 0} but {defined} objects of the class are defined")
    for extra in libs:
        if extra not in HEADER:
            problems.append(f"unexpected library {extra!r}")
    return problems


def shape_body(nslots, fixed_first=None):
    def body(hw):
        hw2 = pysym.HostWorld(stub_top=False, real_prefixes=("Reduino.transpile", "Reduino.toolchain"))
        R = hw2.load("Reduino")          # the real Reduino/__init__.py under proxy-aware builtins
        import Reduino.transpile.ast as A
        import Reduino.transpile.emitter as E
        setup, loop = [], []
        expect = set()
        for i in range(nslots):
            if fixed_first is not None and i == 0:
                k, place = fixed_first
            else:
                ks = sym_int(f"kind{i}", 0, len(KINDS) - 1)
                k = KINDS[ks.__index__() if pysym.is_sym(ks) else ks]
                ps = sym_int(f"place{i}", 0, 2)
                place = ps.__index__() if pysym.is_sym(ps) else ps
            name = f"d{i}"
            if k == "none":
                continue
            var = 0
            if k in ("servo", "lcd_parallel", "lcd_i2c"):
                vs = sym_int(f"variant{i}", 0, 2)       # the optional constructor arguments given
                var = vs.__index__() if pysym.is_sym(vs) else vs
            if k == "servo":
                node = A.ServoDecl(name=name, pin=9 + i) if var == 0 else A.ServoDecl(
                    name=name, pin=9 + i, min_angle=10.0, max_angle=170.0, min_pulse_us=1000.0, max_pulse_us=2000.0)
            elif k == "lcd_parallel":
                extra = [{}, {"rw": 10}, {"rw": 10, "backlight_pin": 6}][var]
                node = A.LCDDecl(name=name, cols=16 if var < 2 else 20, rows=2 if var < 2 else 4, interface="parallel",
                                 rs=12, en=11, d4=5, d5=4, d6=3, d7=2, **extra)
                place = 0 if place == 1 else place   # LCDs are declared before the main loop (property scope)
            elif k == "lcd_i2c":
                node = A.LCDDecl(name=name, cols=16 if var == 0 else 20, rows=2 if var == 0 else 4, interface="i2c",
                                 i2c_addr=0x27 + i)
                place = 0 if place == 1 else place
            else:
                node = A.LedDecl(name=name, pin=2 + i)
            if k in LIB:
                expect.add(LIB[k])
            if place == 0:
                setup.append(node)
            elif place == 1:
                loop.append(node)
            else:
                # still at top level of the prologue, but after other statements
                setup.append(A.Sleep(ms=1))
                setup.append(node)
        prog = A.Program(setup_body=setup, loop_body=loop)
        libs = R._collect_required_libraries(prog)
        cpp = E.emit(prog)
        probs = consistency(cpp, list(libs))
        claim("libraries, headers and instantiated classes agree" + (": " + probs[0] if probs else ""), not probs)
        claim("exactly the libraries of the declared devices are requested", set(libs) == expect)
    return body


SCRIPT_HDR = '''from Reduino import target
target("COM3", upload=False)
from Reduino.Sensors import Button
from Reduino.Actuators import Led, Servo
from Reduino.Displays import LCD
from Reduino.Utils import sleep
'''


def script_for(shape):
    pre, loop = [], []
    for i, el in enumerate(shape):
        k, place = el[0], el[1]
        var = el[2] if len(el) > 2 else 0
        name = f"d{i}"
        if k == "none":
            continue
        text = {"servo": [f"{name} = Servo({9 + i})", f"{name} = Servo({9 + i}, min_angle=10, max_angle=170)",
                          f"{name} = Servo(pin={9 + i}, min_pulse_us=1000, max_pulse_us=2000)"],
                "lcd_parallel": [f"{name} = LCD(rs=12, en=11, d4=5, d5=4, d6=3, d7=2)",
                                 f"{name} = LCD(rs=12, en=11, d4=5, d5=4, d6=3, d7=2, rw=10)",
                                 f"{name} = LCD(12, 11, 5, 4, 3, 2, cols=20, rows=4, rw=10, backlight_pin=6)"],
                "lcd_i2c": [f"{name} = LCD(i2c_addr={0x27 + i})", f"{name} = LCD(i2c_addr={0x27 + i}, cols=20, rows=4)",
                            f"{name} = LCD(cols=20, rows=4, i2c_addr={0x27 + i})"],
                "led": [f"{name} = Led({2 + i})"] * 3,
                # devices that make the parser inject per-pass housekeeping nodes at the top of loop()
                "button": [f"{name} = Button({2 + i})"] * 3,
                "lcd_anim": [f'{name} = LCD(i2c_addr={0x27 + i})\n{name}.animate("blink", 0, "hi", speed_ms=50, loop=True)'] * 3}[k][var]
        if place == 1 and k in ("servo", "led"):
            loop.append("    " + text)
        else:
            if place == 2:
                pre.append("sleep(1)")
            pre.append(text)
    body = "\n".join(pre) + ("\n" if pre else "") + "while True:\n" + ("\n".join(loop) + "\n" if loop else "") + "    sleep(5)\n"
    return SCRIPT_HDR + body


def parser_link(item):
    """The same shapes as script text through the real parse()/emit()/_collect_required_libraries and clang."""
    _, oid, shape = item
    import Reduino
    from Reduino.transpile.parser import parse
    from Reduino.transpile.emitter import emit
    res = Result(oid, "holds", nontrivial=False)
    src = script_for(shape)
    res.sample = {"obligation": oid, "script": src}
    try:
        prog = parse(src)
    except ValueError as e:
        res.detail = "rejected: " + str(e)[:100]
        return res
    libs = list(Reduino._collect_required_libraries(prog))
    cpp = emit(prog)
    probs = consistency(cpp, libs)
    expect = {LIB[el[0]] for el in shape if el[0] in LIB} | ({"LiquidCrystal_I2C"} if any(el[0] == "lcd_anim" for el in shape) else set())
    if set(libs) != expect:
        probs.append(f"requested {sorted(libs)} but the script declares devices needing {sorted(expect)}")
    # what is requested in the end is what platformio.ini says: render the lib_deps section with the real helper
    from Reduino.toolchain import pio as _pio
    rendered = _pio._format_lib_section(libs)
    in_ini = [ln.strip() for ln in rendered.split("\n")[1:] if ln.strip()] if rendered.strip() else []
    if sorted(in_ini) != sorted(expect):
        probs.append(f"platformio.ini would request {in_ini} but the script declares devices needing {sorted(expect)}")
    if not probs:
        ok, err = lower.syntax_check(cpp, tag="c14")
        if not ok:
            first = [ln for ln in err.split("\n") if "error" in ln][:1]
            probs.append("emitted C++ does not compile against the library headers it includes: " + (first[0] if first else err[:120]))
    if probs:
        res.verdict = "violation"
        res.detail = probs[0][:300]
        res.witness = {"script": src, "libs": libs, "class": re.sub(r"\d+", "#", probs[0])[:70]}
    return res


def _work(item):
    if item[0] == "shape":
        _, oid, n, fixed = item
        return run_host_obligation(oid, shape_body(n, fixed), max_paths=40000, max_decisions=60, budget_s=900,
                                   describe="real _collect_required_libraries + emit over symbolic Program shapes")
    return parser_link(item)


def run(tier, seed, only=None):
    t0 = time.time()
    items = []
    nslots = 3
    # split the shape space on the first slot so that it spreads over the cores
    for k in KINDS:
        for place in (0, 1, 2):
            if k in ("none",) and place:
                continue
            items.append(("shape", f"shape/first={k}@{place}/slots={nslots}", nslots, (k, place)))
    import itertools
    opts = [("none", 0, 0), ("button", 0, 0), ("lcd_anim", 0, 0)] + [(k, p, v) for k in ("servo", "lcd_parallel", "lcd_i2c", "led")
                               for p in ((0, 1) if k in ("servo", "led") else (0,)) for v in ((0, 1, 2) if k != "led" else (0,))]
    shapes = list(itertools.product(opts, repeat=2 if tier == "quick" else 3))
    for sh in shapes:
        items.append(("link", "link/" + "+".join(f"{k}@{p}" + (f"v{v}" if v else "") for k, p, v in sh), sh))
    if only:
        items = [i for i in items if only in i[1]]
    results = run_obligations(items, _work)
    return finish(
        "C14", "other", tier, seed, results, t0,
        explanation="Symbolic Program shapes (<= 3 device slots; kind in {none, Servo, parallel LCD, I2C LCD, Led}; placement "
                    "prologue / top of the main-loop body / later in the prologue; optional constructor arguments: none / rw pin / rw + "
                    "backlight pin and another geometry / custom servo ranges - all solver-chosen integers) are run "
                    "through the real _collect_required_libraries/_program_contains and the real emit() under pysym: on "
                    "every path requested libraries, #include lines and global objects of the library classes must agree "
                    "(none twice, none missing).  The solver's role is exhaustive path enumeration of the configuration "
                    "space within the bound (there is no data to quantify over).  Parser link: the same shapes - plus Button and "
                    "animated-LCD devices, for which the parser injects housekeeping nodes at the top of loop() - as script "
                    "text through parse() and the compiler front end.",
        functions_encoded=["Reduino._program_contains", "Reduino._collect_required_libraries", "Reduino.toolchain.pio._format_lib_section (parser link)", "Reduino.transpile.emitter.emit "
                           "(include/global stitching)", "parser LCD interface selection (through parse())"],
        bounds={"device slots": nslots, "kinds": list(KINDS), "placements": 3, "constructor variants per kind": 3, "parser-link shapes": len(shapes)},
        assumptions=["LCDs are declared before the main loop; Servos before it or at the top of its body (property scope)"],
        exhaustive=True,
    )


def replay(path):
    import json
    print(json.dumps(json.load(open(path)), indent=1)[:4000])
    return 0
