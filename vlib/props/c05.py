"""C05 - setup()/loop() split: run-once prologue, repeated body, configure-before-use.

(i)   differential for N = 0..3 passes on skeletons with a prologue and a main loop (values persist
      between passes, prologue runs once, in order);
(ii)  temporal monitors on the raw firmware trace of every feasible path: every pin/peripheral a device uses
      is configured before its first use and never re-configured to a different mode; Serial.begin precedes
      serial output; Servo attach precedes its commands; a motor is driven to a safe stop before its first
      drive command;
(iii) injected button sampling happens exactly once per pass and before any user event of that pass;
(iv)  `break` at main-loop level (directly, under if, under try) is rejected.
"""
from __future__ import annotations

import time

from .. import lower
from ..common import Result, finish, run_obligations
from ..diffscript import ScriptDiff
from ..fwsym import BV
from ._script_common import ASSUMPTIONS, FUNCTIONS

HDR = '''from Reduino import target
target("COM3", upload=False)
from Reduino.Communication import SerialMonitor
from Reduino.Core import analog_read, digital_read, digital_write, pin_mode, OUTPUT, INPUT
from Reduino.Utils import sleep
from Reduino.Actuators import Led, RGBLed, Servo, DCMotor
from Reduino.Sensors import Button, Potentiometer
'''
MON = 'mon = SerialMonitor(9600, "COM3")\n'


def skeletons(tier):
    S = {}
    S["prologue_order"] = HDR + MON + 'mon.write("a")\nx = 1\nmon.write(x)\nsleep(5)\nx = x + 1\nmon.write(x)\nwhile True:\n    mon.write(x)\n    x += 1\n'
    S["prologue_sensor"] = HDR + MON + 'v = analog_read("A0")\nmon.write(v)\nwhile True:\n    mon.write(v)\n    v = v + 1\n'
    S["persist_two_vars"] = HDR + MON + 'a = 0\nb = 10\nwhile True:\n    a, b = b, a + 1\n    mon.write(a)\n    mon.write(b)\n'
    S["persist_str"] = HDR + MON + 's = "x"\nwhile True:\n    s = s + "y"\n    mon.write(s)\n'
    S["persist_branch"] = HDR + MON + 'n = 0\nwhile True:\n    v = analog_read("A0")\n    if v > 512:\n        n += 1\n    mon.write(n)\n'
    S["persist_float"] = HDR + MON + 'acc = 0.0\nwhile True:\n    acc = acc + 0.5\n    mon.write(acc)\n'
    S["loop_local_reset"] = HDR + MON + 'while True:\n    k = 0\n    k += 1\n    mon.write(k)\n'
    S["no_loop"] = HDR + MON + 'mon.write("only")\nsleep(3)\n'
    S["led_before"] = HDR + MON + 'led = Led(9)\nled.on()\nwhile True:\n    led.toggle()\n    sleep(2)\n'
    S["led_in_loop_stateless"] = HDR + MON + 'while True:\n    led = Led(9)\n    led.on()\n    sleep(2)\n    led.off()\n'
    S["led_in_loop_stateful"] = HDR + MON + 'while True:\n    led = Led(9)\n    led.toggle()\n'
    S["rgb_in_loop"] = HDR + MON + 'while True:\n    rgb = RGBLed(3, 5, 6)\n    rgb.set_color(1, 2, 3)\n    rgb.off()\n'
    S["rgb_before"] = HDR + MON + 'rgb = RGBLed(3, 5, 6)\nwhile True:\n    v = analog_read("A0")\n    rgb.set_color(v // 4, 0, 0)\n'
    S["servo_before"] = HDR + MON + 'servo = Servo(10)\nservo.write(90)\nwhile True:\n    v = analog_read("A0")\n    servo.write(v // 6)\n'
    S["servo_in_loop"] = HDR + MON + 'while True:\n    servo = Servo(10)\n    servo.write(45)\n'
    S["motor_before"] = HDR + MON + 'motor = DCMotor(4, 7, 11)\nwhile True:\n    motor.set_speed(0.5)\n    motor.stop()\n'
    S["motor_in_loop"] = HDR + MON + 'while True:\n    motor = DCMotor(4, 7, 11)\n    motor.set_speed(1.0)\n    motor.coast()\n'
    S["pot_before"] = HDR + MON + 'pot = Potentiometer("A2")\nwhile True:\n    mon.write(pot.read())\n'
    S["pot_in_loop"] = HDR + MON + 'while True:\n    pot = Potentiometer("A2")\n    mon.write(pot.read())\n'
    S["button_before"] = HDR + MON + 'btn = Button(2)\nwhile True:\n    if btn.is_pressed():\n        mon.write("p")\n    mon.write("e")\n'
    S["button_two_reads"] = HDR + MON + 'btn = Button(2)\nwhile True:\n    a = btn.is_pressed()\n    sleep(1)\n    b = btn.is_pressed()\n    mon.write(a + b)\n'
    S["button_in_loop"] = HDR + MON + 'while True:\n    btn = Button(2)\n    if btn.is_pressed():\n        mon.write("p")\n'
    S["core_pin_mode"] = HDR + MON + 'pin_mode(7, OUTPUT)\ndigital_write(7, 1)\nwhile True:\n    v = digital_read(3)\n    digital_write(7, v)\n'
    S["two_devices_mixed"] = HDR + MON + 'led = Led(9)\nwhile True:\n    pot = Potentiometer("A0")\n    led.set_brightness(pot.read() // 4)\n'
    S["serial_late"] = HDR + 'led = Led(9)\nled.on()\n' + MON + 'mon.write("late")\nwhile True:\n    mon.write(1)\n'
    S["const_pin_expr"] = HDR + MON + 'LED_PIN = 10 + 3\nwhile True:\n    led = Led(LED_PIN)\n    led.on()\n    led.off()\n'
    S["const_pin_expr_before"] = HDR + MON + 'P = 4 + 5\nled = Led(P)\nwhile True:\n    led.toggle()\n'
    S["main_continue"] = HDR + MON + 'n = 0\nwhile True:\n    n += 1\n    if n == 2:\n        continue\n    mon.write(n)\n'
    # the same name bound in the prologue and again at the top of the loop body, to other pins; and two names
    for dev, d1, d2, use in (
            ("led", "Led(12)", "Led(13)", "x.on()\n    sleep(2)\n    x.off()\n"),
            ("rgb", "RGBLed(3, 5, 6)", "RGBLed(9, 10, 11)", "x.set_color(1, 2, 3)\n    x.off()\n"),
            ("servo", "Servo(9)", "Servo(10)", "x.write(45)\n"),
            ("motor", "DCMotor(4, 7, 11)", "DCMotor(2, 3, 5)", "x.set_speed(1.0)\n    x.coast()\n"),
            ("pot", 'Potentiometer("A2")', 'Potentiometer("A3")', "mon.write(x.read())\n"),
            ("button", "Button(2)", "Button(4)", 'if x.is_pressed():\n        mon.write("p")\n')):
        pro_use = use.replace("\n    ", "\n")
        S[f"rebind_{dev}"] = HDR + MON + f"x = {d1}\n" + pro_use + f"while True:\n    x = {d2}\n    " + use
        S[f"rebind_same_{dev}"] = HDR + MON + f"x = {d1}\n" + pro_use + f"while True:\n    x = {d1}\n    " + use
        S[f"two_names_{dev}"] = HDR + MON + f"y = {d1}\n" + pro_use.replace("x.", "y.") + f"while True:\n    x = {d2}\n    " + use
    # a prologue variable first assigned inside a top-level compound statement, then re-assigned in the main loop
    for kind, block in (("if", 'v = analog_read("A0")\nif v > 5:\n    step = 1\nelse:\n    step = 2\n'),
                        ("for", "for i in range(3):\n    step = i\n"),
                        ("while", "n = 0\nwhile n < 2:\n    n += 1\n    step = n\n"),
                        ("try", "try:\n    step = 4\nexcept:\n    step = 5\n")):
        S[f"prologue_{kind}_var_reassigned_in_loop"] = HDR + MON + block + "while True:\n    step = step + 1\n    mon.write(step)\n"
        S[f"prologue_{kind}_var_aug_in_loop"] = HDR + MON + block + "while True:\n    step += 2\n    mon.write(step)\n"
    S["helper_then_loop"] = HDR + MON + 'def tick(k):\n    mon.write(k)\n    return k + 1\nc = tick(0)\nwhile True:\n    c = tick(c)\n'
    return S


BREAK_CASES = {
    "break_direct": 'while True:\n    mon.write(1)\n    break\n',
    "break_under_if": 'while True:\n    v = analog_read("A0")\n    if v > 5:\n        break\n    mon.write(v)\n',
    "break_under_else": 'while True:\n    v = analog_read("A0")\n    if v > 5:\n        mon.write(1)\n    else:\n        break\n',
    "break_under_try": 'while True:\n    try:\n        mon.write(1)\n        break\n    except:\n        mon.write(2)\n',
    "break_under_except": 'while True:\n    try:\n        mon.write(1)\n    except:\n        break\n',
    "break_under_if_in_try": 'while True:\n    try:\n        v = analog_read("A0")\n        if v > 1:\n            break\n    except:\n        mon.write(2)\n',
    "break_nested_if": 'while True:\n    v = analog_read("A0")\n    if v > 5:\n        if v > 9:\n            break\n',
}
def _ctx_break_cases():
    """`break` directly under every block context that is not a script-level inner loop: must be rejected."""
    from .. import skeletons as sk
    out = {}
    for cname, tmpl in sk.CTX_LOOP.items():
        if cname in sk.CTX_INNER_LOOP:
            continue
        body = sk._fill(tmpl, "mon.write(1)\nbreak\n")
        out[f"break_ctx_{cname}"] = 'while True:\n    a = analog_read("A0") - 512\n    b = analog_read("A1") - 512\n' + sk._ind(body)
    return out


BREAK_CASES.update(_ctx_break_cases())
NESTED_BREAK_OK = {
    "break_in_for": 'while True:\n    for i in range(3):\n        if i == 1:\n            break\n        mon.write(i)\n',
    "break_in_while": 'while True:\n    n = 0\n    while n < 3:\n        n += 1\n        break\n    mon.write(n)\n',
}


def monitor(events, dev, host_events=None):
    """Temporal monitors over the raw firmware trace of one path -> list of problems (empty = fine)."""
    problems = []
    mode = {}
    serial_begun = False
    attached = set()
    motor_safe = {}
    motor_pins = {}
    for m in dev.motor:
        for p in m:
            motor_pins[p] = m
    button_pins = {int(b.pin) for b in dev.buttons}
    # a button object no script name refers to any more (its name was re-bound) need not be sampled - but never twice
    live_buttons = getattr(dev, "live_button_pins", button_pins)

    def bad_count(p, n):
        return n != 1 if p in live_buttons else n > 1
    in_pass = False
    pass_events = 0
    pass_button_reads = {}
    device_pins = dev.device_pins()
    for ev in events:
        k = ev[0]
        if k == "marker":
            if in_pass:
                for p in button_pins:
                    if bad_count(p, pass_button_reads.get(p, 0)):
                        problems.append(f"button pin {p} sampled {pass_button_reads.get(p, 0)} times in a pass")
            in_pass = ev[1] == "loop"
            pass_events = 0
            pass_button_reads = {}
            continue
        pin = ev[1].v if len(ev) > 1 and isinstance(ev[1], BV) and ev[1].concrete else None
        if k == "pinMode":
            m = ev[2].v if ev[2].concrete else None
            if pin in mode and mode[pin] != m:
                problems.append(f"pin {pin} re-configured from mode {mode[pin]} to {m}")
            mode[pin] = m
            continue
        if k in ("digitalWrite", "analogWrite", "digitalRead", "analogRead"):
            if pin in device_pins and pin not in mode:
                problems.append(f"pin {pin} used by {k} before any pinMode")
            if k == "digitalRead" and pin in button_pins and in_pass:
                pass_button_reads[pin] = pass_button_reads.get(pin, 0) + 1
                if pass_events > 0:
                    problems.append(f"button pin {pin} sampled after {pass_events} other events of the pass")
                continue
            if pin in motor_pins:
                mp = motor_pins[pin]
                st = motor_safe.setdefault(mp, {"safe": False, "in1": None, "in2": None})
                if k == "digitalWrite":
                    role = "in1" if pin == mp[0] else "in2"
                    st[role] = ev[2].v if ev[2].concrete else None
                elif k == "analogWrite" and pin == mp[2]:
                    duty = ev[2].v if ev[2].concrete else None
                    if not st["safe"]:
                        if st["in1"] == 0 and st["in2"] == 0 and duty == 0:
                            st["safe"] = True
                        else:
                            problems.append(f"motor {mp} driven before it was brought to a safe stop")
        if k == "ser" and not serial_begun:
            problems.append("serial output before Serial.begin")
        if k == "serial_begin":
            serial_begun = True
        if k == "servo_attach":
            attached.add(ev[1])
        if k in ("servo_write", "servo_us") and ev[1] not in attached:
            problems.append("servo command before attach")
        if in_pass and k not in ("millis", "micros"):
            pass_events += 1
    if in_pass:
        for p in button_pins:
            if bad_count(p, pass_button_reads.get(p, 0)):
                problems.append(f"button pin {p} sampled {pass_button_reads.get(p, 0)} times in a pass")
    return problems


def _work(item):
    kind = item[0]
    if kind == "diff":
        _, oid, src, passes, kw = item
        return ScriptDiff(oid, src, passes=passes, fw_only_check=monitor, **kw).run()
    _, oid, src, expect_reject = item
    res = Result(oid, "holds", nontrivial=False)
    res.sample = {"obligation": oid, "script": src, "expect": "ValueError" if expect_reject else "accepted"}
    try:
        lower.transpile(src)
        accepted = True
    except ValueError:
        accepted = False
    except Exception as e:
        res.verdict, res.detail = "violation", f"internal error {type(e).__name__}: {e}"
        res.witness = {"script": src, "class": "internal-error"}
        return res
    if expect_reject and accepted:
        res.verdict = "violation"
        res.detail = "a break that would terminate the main loop was accepted"
        res.witness = {"script": src, "class": "break-accepted"}
    return res


def run(tier, seed, only=None):
    t0 = time.time()
    items = []
    kw = {"budget_s": 200 if tier == "quick" else 900, "max_block_visits": 100}
    passes_list = (0, 2) if tier == "quick" else (0, 1, 2, 3)
    for name, src in skeletons(tier).items():
        for n in passes_list:
            items.append(("diff", f"split/{name}/N={n}", src, n, kw))
    for name, body in BREAK_CASES.items():
        items.append(("parse", f"break/{name}", HDR + MON + body, True))
    for name, body in NESTED_BREAK_OK.items():
        items.append(("diff", f"break/{name}/N=2", HDR + MON + body, 2, kw))
    # values persist between passes whatever block the update sits in
    from .. import skeletons as sk
    for oid, src in sk.ctx_family(tier, stmts=("aug_global", "const_bump", "str_reassign", "range_name", "swap", "list_swap",
                                               "append", "remove_dup", "new_zero", "led_toggle", "continue")):
        items.append(("diff", "persist/" + oid[4:] + "/N=3", src, 3, kw))
    if only:
        items = [i for i in items if only in i[1]]
    results = run_obligations(items, _work)
    return finish(
        "C05", "translation_validation", tier, seed, results, t0,
        explanation="Skeletons with a run-once prologue and a main loop (devices declared before the loop or at the top of "
                    "its body) are lowered and executed symbolically for N in {0,2} (quick) / {0,1,2,3} passes: (i) the "
                    "firmware trace must equal CPython's trace (prologue once, body once per pass, values persist); (ii) "
                    "temporal monitors run over the raw firmware trace of every feasible path (configure-before-use, no "
                    "re-configuration to another mode, Serial.begin/attach/safe-stop first; injected button sampling exactly "
                    "once per pass and before user events); (iii) `break` that would leave the main loop must be rejected, "
                    "under every block context that is not an inner loop; (iv) persist/*: state-carrying statements in every "
                    "block context over three passes; rebind_*/two_names_*: a device name bound in the prologue and again at "
                    "the top of the loop body (other pins / same pins / another name).",
        functions_encoded=FUNCTIONS + ["emit() pass 1 (hoisted configuration) and pass 2 as lowered IR", "parser break guard"],
        bounds={"passes": list(passes_list), "skeletons": len(items)},
        assumptions=ASSUMPTIONS + ["monitors are evaluated on concrete event kinds/pins of each feasible path (pins are "
                                   "literals in the skeletons); path feasibility is the solver's"],
        programs=len(items),
    )


def replay(path):
    import json
    print(json.dumps(json.load(open(path)), indent=1)[:4000])
    return 0
