"""C01 - reject-or-preserve for the core language: firmware trace == CPython trace."""
from __future__ import annotations

from .. import skeletons
from ._script_common import run_family


def family(tier):
    return skeletons.expr_family() + skeletons.stmt_family(tier) + skeletons.ctx_family(tier)


def run(tier, seed, only=None):
    return run_family(
        "C01", "translation_validation", tier, seed, only, family(tier),
        passes=2 if tier == "quick" else 3,
        budget_s=200 if tier == "quick" else 900,
        explanation="For every skeleton of the expr, stmt and ctx (every statement kind x every block context) families: the emitted C++ is lowered to LLVM IR and executed "
                    "symbolically (setup(); loop()^N), the same script is executed by CPython against the real host modules "
                    "with symbolic sensor values, and for every pair of compatible paths z3 decides whether the normalised "
                    "event traces (serial text, delays, pin commands) can differ.  sat => replay on a g++ build of the same "
                    "C++ and on stock CPython before anything is reported.")


def replay(path):
    import json
    w = json.load(open(path))
    print(json.dumps(w, indent=1)[:4000])
    return 0
