"""C10 - transpilation is a deterministic, stateless function of the source text (partial claim).

order/*    The real parse()+emit() are executed (pysym, isolated module instances) with every set in the
           transpiler replaced by an instrumented set whose ITERATION ORDER IS CHOSEN BY THE SOLVER (set(...) calls
           through the module's builtins, set literals/comprehensions through an AST rewrite of the module source
           before it is compiled; sorted() of a set is order-free and does not fork).  Each order-sensitive
           iteration site forks; the emitted text must be identical on every path.  A differing pair is replayed in
           fresh interpreters under PYTHONHASHSEED = 0..63.
history/*  (concrete cross-check, outside the solver claim) emitting script B after script A in one process gives the
           text a fresh process gives for B; emitting A twice gives the same text.
Outside the claim: cross-platform dict ordering, interpreter-level state.
"""
from __future__ import annotations

import ast
import hashlib
import os
import subprocess
import sys
import time

import z3

from .. import pysym, skeletons
from ..common import Result, finish, run_obligations
from ..lower import VERIF

H = skeletons.FEATURE_HEADER + 'mon = SerialMonitor(9600, "COM3")\n'
RD = '    v = analog_read("A0")\n'

SCRIPTS = {
    "branch_three_new": H + "while True:\n" + RD + "    if v > 5:\n        alpha = 1\n        beta = 2\n        gamma = 3\n    else:\n        alpha = 4\n        beta = 5\n        gamma = 6\n    mon.write(alpha + beta + gamma)\n",
    "branch_two_new_setup": H + 'v = analog_read("A0")\nif v > 5:\n    left = 1\n    right = 2.5\nelse:\n    left = 3\n    right = 4.5\nmon.write(left)\nmon.write(right)\n',
    "try_two_new": H + "while True:\n    try:\n        one = 1\n        two = 2\n    except:\n        one = 3\n        two = 4\n    mon.write(one + two)\n",
    "loop_two_new": H + "while True:\n    for i in range(2):\n        p = i\n        q = i + 1\n    mon.write(p + q)\n",
    "three_buttons": H + "def a():\n    mon.write(1)\ndef b():\n    mon.write(2)\ndef c():\n    mon.write(3)\nb1 = Button(2, on_click=a)\nb2 = Button(3, on_click=b)\nb3 = Button(4, on_click=c)\nwhile True:\n    sleep(1)\n",
    "two_ultrasonic": H + "ua = Ultrasonic(2, 3)\nub = Ultrasonic(4, 5)\nwhile True:\n    mon.write(ua.measure_distance())\n    mon.write(ub.measure_distance())\n",
    "two_lcd_anims": H + 'la = LCD(i2c_addr=0x27)\nlb = LCD(i2c_addr=0x3F)\nla.animate("blink", 0, "a")\nlb.animate("scroll", 0, "b")\nla.animate("typewriter", 1, "c")\nwhile True:\n    sleep(1)\n',
    "two_pots_two_leds": H + 'p = Potentiometer("A0")\nq = Potentiometer("A1")\nl1 = Led(9)\nl2 = Led(10)\nwhile True:\n    l1.set_brightness(p.read() // 4)\n    l2.set_brightness(q.read() // 4)\n',
    "helpers_len_list": H + "xs = [1, 2]\nys = [3]\nwhile True:\n    mon.write(len(xs) + len(ys))\n    xs.append(1)\n",
    "functions_three": H + "def f(a):\n    return a + 1\ndef g(a):\n    return f(a) * 2\ndef h(a, b):\n    return g(a) + f(b)\nwhile True:\n" + RD + "    mon.write(h(v, 2))\n",
    "everything": dict(skeletons.feature_family())["feature/everything"],
    "branch_case_twins": H + "while True:\n" + RD + "    if v > 5:\n        t = 1\n        T = 2\n        tt = 3\n    else:\n        t = 4\n        T = 5\n        tt = 6\n    mon.write(t + T + tt)\n",
    "try_case_twins": H + "while True:\n    try:\n        ab = 1\n        AB = 2\n        Ab = 3\n    except:\n        ab = 4\n        AB = 5\n        Ab = 6\n    mon.write(ab + AB + Ab)\n",
    "nested_branch_new": H + "while True:\n" + RD + "    if v > 5:\n        if v > 9:\n            aa = 1\n            bb = 2\n        else:\n            aa = 3\n            bb = 4\n        cc = aa + bb\n        dd = cc\n    else:\n        cc = 0\n        dd = 1\n    mon.write(cc + dd)\n",
}


class PermSet(set):
    """A set whose iteration order is decided by the pysym engine (solver-chosen) instead of by hashing."""

    def _wrap(self, r):
        return PermSet(r) if isinstance(r, (set, frozenset)) and not isinstance(r, PermSet) else r

    def __iter__(self):
        items = sorted(set.__iter__(self), key=lambda x: (type(x).__name__, repr(x)))
        e = pysym.Engine.current
        if e is not None and len(items) >= 2 and not getattr(e, "_order_free", False):
            k = e.in_count.get(("order", 0), 0)
            e.in_count[("order", 0)] = k + 1
            if e.decide(z3.Bool(f"order_rev_{k}")):
                items.reverse()
            if len(items) >= 3 and e.decide(z3.Bool(f"order_rot_{k}")):
                items = items[1:] + items[:1]
        return iter(items)

    def __sub__(self, o): return self._wrap(set.__sub__(self, o))
    def __or__(self, o): return self._wrap(set.__or__(self, o))
    def __and__(self, o): return self._wrap(set.__and__(self, o))
    def __xor__(self, o): return self._wrap(set.__xor__(self, o))
    def __rsub__(self, o): return self._wrap(set.__rsub__(self, o))
    def __ror__(self, o): return self._wrap(set.__ror__(self, o))
    def __rand__(self, o): return self._wrap(set.__rand__(self, o))
    def union(self, *o): return self._wrap(set.union(self, *o))
    def difference(self, *o): return self._wrap(set.difference(self, *o))
    def intersection(self, *o): return self._wrap(set.intersection(self, *o))
    def symmetric_difference(self, o): return self._wrap(set.symmetric_difference(self, o))
    def copy(self): return PermSet(set.copy(self))


def order_free_sorted(x, *a, **k):
    """sorted() of a set does not depend on the set's iteration order - unless the sort key ties two distinct
    elements (sorted is stable, so tied elements keep their iteration order): then the iteration forks as usual."""
    e = pysym.Engine.current
    if e is None:
        return sorted(x, *a, **k)
    prev = getattr(e, "_order_free", False)
    e._order_free = True
    try:
        items = list(x)
        key = k.get("key")
        ties = False
        if key is not None and isinstance(x, (set, frozenset)):
            keys = [key(i) for i in items]
            try:
                ties = len(set(keys)) != len(keys)
            except TypeError:
                ties = True
        if not ties:
            return sorted(items, *a, **k)
    finally:
        e._order_free = prev
    return sorted(x, *a, **k)


class SetRewriter(ast.NodeTransformer):
    def visit_Set(self, node):
        self.generic_visit(node)
        return ast.copy_location(ast.Call(ast.Name("__PermSet", ast.Load()), [ast.List(node.elts, ast.Load())], []), node)

    def visit_SetComp(self, node):
        self.generic_visit(node)
        lc = ast.ListComp(node.elt, node.generators)
        return ast.copy_location(ast.Call(ast.Name("__PermSet", ast.Load()), [lc], []), node)


def order_obligation(item):
    _, oid, src = item
    res = Result(oid, "holds")
    eng = pysym.Engine(max_paths=512, max_decisions=200)
    texts = {}
    stats = {"paths": 0, "other": []}

    def fn():
        hw = pysym.HostWorld(stub_top=True, patched=False, ast_transform=lambda t: SetRewriter().visit(t),
                             extra_builtins={"set": PermSet, "__PermSet": PermSet, "sorted": order_free_sorted,
                                             "frozenset": frozenset})
        P = hw.load("Reduino.transpile.parser")
        E = hw.load("Reduino.transpile.emitter")
        return E.emit(P.parse(src))

    def on_path(out):
        stats["paths"] += 1
        if out.status == "ok":
            texts.setdefault(out.result, []).append([(str(c)) for c in out.pc][:40])
        elif out.status == "raised" and isinstance(out.exc, ValueError):
            texts.setdefault("<rejected>", []).append([])
        else:
            stats["other"].append(out.status + " " + (str(out.exc)[:80] if out.exc else ""))
    eng.explore(fn, on_path)
    res.paths, res.queries = stats["paths"], eng.stats["queries"]
    res.sample = {"obligation": oid, "script": src, "orderings_explored": stats["paths"], "distinct_outputs": len(texts)}
    if len(texts) > 1:
        # replay under different hash seeds in fresh interpreters
        hashes = set()
        for seed in range(64):
            r = subprocess.run([sys.executable, "-c",
                                "import sys,hashlib\nfrom Reduino.transpile.parser import parse\nfrom Reduino.transpile.emitter import emit\n"
                                "print(hashlib.sha256(emit(parse(sys.stdin.read())).encode()).hexdigest())"],
                               input=src, capture_output=True, text=True, env=dict(os.environ, PYTHONHASHSEED=str(seed)))
            hashes.add(r.stdout.strip() or r.stderr[-80:])
            if len(hashes) > 1:
                break
        if len(hashes) > 1:
            res.verdict = "violation"
            a, b = list(texts)[:2]
            import difflib
            d = [x for x in difflib.unified_diff(a.split("\n"), b.split("\n"), lineterm="", n=0)][2:8]
            res.detail = "the emitted text depends on set iteration order (PYTHONHASHSEED): " + " | ".join(d)[:300]
            res.witness = {"script": src, "class": "hash-order", "orders": list(texts.values())[1][0][:6]}
        else:
            res.verdict = "inconclusive"
            res.detail = "order-sensitive under the symbolic set order, but 64 hash seeds produced one output (not reproduced)"
        return res
    if stats["other"]:
        res.verdict, res.detail = "inconclusive", "; ".join(sorted(set(stats["other"]))[:3])
    elif stats["paths"] == 0:
        res.verdict, res.detail = "inconclusive", "vacuous"
    return res


def history_obligation(item):
    """Concrete cross-check: A;B in one process vs B alone in a fresh process; A twice."""
    _, oid, a_src, b_src = item
    res = Result(oid, "holds", nontrivial=False)
    prog = ("import sys,json,hashlib\nfrom Reduino.transpile.parser import parse\nfrom Reduino.transpile.emitter import emit\n"
            "srcs=json.loads(sys.stdin.read())\nout=[]\n"
            "for s in srcs:\n    try:\n        out.append(emit(parse(s)))\n    except ValueError as e:\n        out.append('REJECT')\n"
            "print(json.dumps(out))")
    import json

    def run(srcs):
        r = subprocess.run([sys.executable, "-c", prog], input=json.dumps(srcs), capture_output=True, text=True,
                           env=dict(os.environ, PYTHONHASHSEED="0"))
        return json.loads(r.stdout) if r.returncode == 0 else ["ERR " + r.stderr[-200:]]
    seq = run([a_src, b_src, a_src, b_src])
    alone_b = run([b_src])
    alone_a = run([a_src])
    res.queries = 3
    res.sample = {"obligation": oid}
    if len(seq) != 4:
        res.verdict, res.detail = "harness-error", str(seq)[:200]
        return res
    problem = None
    if seq[1] != alone_b[0]:
        problem = "the text for a script depends on which script was transpiled before it in the same process"
    elif seq[0] != seq[2] or seq[1] != seq[3]:
        problem = "transpiling the same text twice in one process gives different output"
    elif seq[0] != alone_a[0]:
        problem = "first transpilation in a process differs from a fresh process"
    if problem:
        res.verdict = "violation"
        res.detail = problem
        res.witness = {"first": a_src, "second": b_src, "class": "history"}
    return res


def corpus():
    """Scripts that together exercise every allocator / cache / table of the transpiler: feature scripts, every
    statement kind at the top of the loop and inside a helper, literal-only initialisers through int()/max()/len()."""
    fam = list(skeletons.feature_family())
    fam += [(o, s_) for o, s_ in skeletons.ctx_family("quick", contexts=("top", "fn", "else", "setup"))]
    lit = H + ("wait = int(2.5 * 100)\nbig = max(100, 250)\nn = len('abcd')\nf = float(3)\nm = min(4, 9) + abs(-2)\n"
               "while True:\n    sleep(max(100, 250))\n    sleep(int(1.5 * 10))\n    mon.write(wait + big + n + m)\n    mon.write(f)\n")
    fam.append(("lit/casts_and_builtins", lit))
    fam.append(("lit/casts_and_builtins_again", lit.replace("wait", "pause")))
    return fam


def corpus_obligation(item):
    """Concrete cross-check: the whole corpus is transpiled in ONE process, forwards and then backwards; every output
    must be the text a fresh interpreter produces for that script alone."""
    _, oid, chunk, nchunks = item
    import json
    res = Result(oid, "holds", nontrivial=False)
    fam = corpus()
    mine = fam[chunk::nchunks]
    prog = ("import sys,json\nfrom Reduino.transpile.parser import parse\nfrom Reduino.transpile.emitter import emit\n"
            "srcs=json.loads(sys.stdin.read())\nout=[]\n"
            "for s in srcs:\n    try:\n        out.append(emit(parse(s)))\n    except ValueError as e:\n        out.append('REJECT')\n"
            "print(json.dumps(out))")

    def run(srcs):
        r = subprocess.run([sys.executable, "-c", prog], input=json.dumps(srcs), capture_output=True, text=True,
                           env=dict(os.environ, PYTHONHASHSEED="0"))
        return json.loads(r.stdout) if r.returncode == 0 else None
    srcs = [s_ for _, s_ in fam]
    seq = run(srcs + srcs[::-1])
    if seq is None:
        res.verdict, res.detail = "harness-error", "corpus run failed"
        return res
    fwd, bwd = seq[:len(srcs)], seq[len(srcs):][::-1]
    res.queries = len(mine) + 1
    res.sample = {"obligation": oid, "corpus": len(fam), "checked_against_fresh_process": len(mine)}
    for k in range(chunk, len(fam), nchunks):
        fresh = run([srcs[k]])
        if fresh is None:
            res.verdict, res.detail = "harness-error", "fresh run failed for " + fam[k][0]
            return res
        for label, got in (("after the scripts before it", fwd[k]), ("after the whole corpus and the scripts behind it", bwd[k])):
            if got != fresh[0]:
                import difflib
                d = [x for x in difflib.unified_diff(fresh[0].split("\n"), got.split("\n"), lineterm="", n=0)][2:6]
                res.verdict = "violation"
                res.detail = (f"script {fam[k][0]} transpiled {label} in one process differs from a fresh process: "
                              + " | ".join(d))[:400]
                res.witness = {"script": srcs[k], "position": k, "class": "history"}
                return res
    return res


def _work(item):
    if item[0] == "corpus":
        return corpus_obligation(item)
    if item[0] == "order":
        return order_obligation(item)
    return history_obligation(item)


def run(tier, seed, only=None):
    t0 = time.time()
    items = [("order", f"order/{k}", v) for k, v in SCRIPTS.items()]
    if tier == "thorough":
        items += [("order", "order/" + k, v) for k, v in skeletons.feature_family()[:40]]
    names = list(SCRIPTS)
    feats = dict(skeletons.feature_family())
    pairs = [("two_ultrasonic", "two_ultrasonic"), ("two_ultrasonic", "everything"), ("everything", "two_ultrasonic"),
             ("helpers_len_list", "helpers_len_list"), ("three_buttons", "two_pots_two_leds"), ("two_lcd_anims", "two_lcd_anims"),
             ("branch_three_new", "nested_branch_new"), ("functions_three", "functions_three")]
    for a, b in pairs:
        items.append(("history", f"history/{a}->{b}", SCRIPTS[a], SCRIPTS[b]))
    us1 = H + "u = Ultrasonic(7, 8)\nwhile True:\n    mon.write(u.measure_distance())\n"
    us2 = H + "u = Ultrasonic(7, 8)\nled = Led(3)\nwhile True:\n    mon.write(u.measure_distance())\n    led.toggle()\n"
    items.append(("history", "history/same_sensor_name_and_pins", us1, us2))
    l1 = H + "xs = [1, 2, 3]\nxs.append(4)\nwhile True:\n    mon.write(len(xs))\n"
    l2 = H + "ys = [1, 2, 3]\nwhile True:\n    mon.write(len(ys))\n"
    items.append(("history", "history/same_list_literal", l1, l2))
    for c in range(6):
        items.append(("corpus", f"history/corpus[{c}/6]", c, 6))
    if only:
        items = [i for i in items if only in i[1]]
    results = run_obligations(items, _work)
    return finish(
        "C10", "other", tier, seed, results, t0,
        explanation="Set iteration order made symbolic: the real parser/emitter modules are re-instantiated with their sets "
                    "replaced by a set type whose iteration order is a solver-chosen permutation (reverse / rotate per "
                    "iteration site), parse()+emit() run over all feasible order choices, and the emitted text must be the "
                    "same on every path; a difference is replayed in fresh interpreters under 64 PYTHONHASHSEED values.  The "
                    "history obligations are a concrete cross-check (sequences of parse/emit calls in one process vs fresh "
                    "processes) and are outside the solver claim.",
        functions_encoded=["Reduino.transpile.parser (whole module, sets instrumented)", "Reduino.transpile.emitter (whole module)"],
        bounds={"orders per iteration site": "identity / reversed (+ rotation for >= 3 elements)", "paths per script": "<= 512",
                "scripts": len(SCRIPTS)},
        assumptions=["independence from earlier calls and from other platforms' dict/set implementation is not quantified by "
                     "the solver (history part is concrete)", "sets created by C-level code paths that bypass the module's "
                     "builtins and literals (none found in the transpiler) would keep hash order"],
        stubs=["builtins.set -> PermSet, set literals/comprehensions rewritten in the module AST, sorted() order-free"],
    )


def replay(path):
    import json
    print(json.dumps(json.load(open(path)), indent=1)[:4000])
    return 0
