"""C03 - transpile-time evaluation (constant folding/propagation) never changes meaning."""
from __future__ import annotations

from .. import skeletons
from ._script_common import run_family


def run(tier, seed, only=None):
    return run_family(
        "C03", "translation_validation", tier, seed, only, skeletons.fold_family(tier),
        passes=2 if tier == "quick" else 3,
        budget_s=240 if tier == "quick" else 900,
        explanation="Metamorphic families around every transpile-time evaluation site (delays, pins, len() of tracked "
                    "values, flash patterns, colour/brightness arguments, tuple constants): the literal form, the form routed "
                    "through run-time variables, and forms with assignments/mutations in other branches, loop bodies and "
                    "earlier passes.  Each member's firmware trace must equal CPython's for all sensor inputs (branches are "
                    "taken or not as the solver chooses) and all passes; since CPython is the common reference, members of "
                    "a family are thereby equal to each other wherever Python says so.")


def replay(path):
    import json
    print(json.dumps(json.load(open(path)), indent=1)[:4000])
    return 0
