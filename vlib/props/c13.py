"""C13 - board registry validation is exact and project files round-trip."""
from __future__ import annotations

import configparser
import os
import time
import types

import z3

from .. import pysym
from ..common import Result, finish, run_obligations
from ..crosshair_run import run_crosshair
from ..hostcheck import claim, run_host_obligation
from ..lower import VERIF
from ..pysym import sym_int


def near_misses(name):
    out = {name.upper(), name.capitalize(), name + " ", " " + name, name + "\n", name[:-1], name + "x", name.replace("_", "-"),
           name.replace("_", ""), name.swapcase(), "\t" + name}
    out.discard(name)
    return sorted(out)


def registry_obligation(item):
    """Exhaustive over the finite domain (registry + near-miss spellings)^2 - enumeration, not a solver query."""
    _, oid, chunk, nchunks = item
    from Reduino.toolchain import pio as P
    res = Result(oid, "holds", nontrivial=False)
    sp = P.SUPPORTED_PLATFORMS
    platforms = sorted(sp)
    boards = sorted({b for bs in sp.values() for b in bs})
    pc = platforms + [m for p in platforms for m in near_misses(p)] + ["", "avr"]
    sample = boards[chunk::nchunks]
    bc = sample + [m for b in sample for m in near_misses(b)] + ["", "UNO"]
    n = 0
    for p in pc:
        for b in bc:
            n += 1
            try:
                P.validate_platform_board(p, b)
                accepted = True
            except ValueError:
                accepted = False
            except Exception as e:      # noqa: BLE001
                res.verdict = "violation"
                res.detail = f"validate_platform_board({p!r}, {b!r}) raised {type(e).__name__}"
                res.witness = {"platform": p, "board": b, "class": "wrong-exception"}
                return res
            registered = p in sp and b in tuple(sp[p])
            if accepted != registered:
                res.verdict = "violation"
                res.detail = (f"validate_platform_board({p!r}, {b!r}) {'accepts' if accepted else 'rejects'} a pair that is "
                              f"{'not ' if not registered else ''}registered")
                res.witness = {"platform": p, "board": b, "class": "accepts-unregistered" if accepted else "rejects-registered"}
                return res
    import re as _re
    for b in bc + pc:
        sname = P._sanitize_env_name(b)
        if not _re.fullmatch(r"[A-Za-z0-9_]*", sname):
            res.verdict = "violation"
            res.detail = f"_sanitize_env_name({b!r}) = {sname!r} is not an identifier"
            res.witness = {"board": b, "class": "sanitize"}
            return res
    res.queries = n
    res.sample = {"obligation": oid, "pairs_checked": n, "example": [pc[1], bc[-3]]}
    return res


def partition_obligation(_):
    """Every registered board belongs to exactly one platform (finite-domain z3 query over the live registry)."""
    from Reduino.toolchain import pio
    res = Result("registry/partition", "holds")
    sp = pio.SUPPORTED_PLATFORMS
    s = z3.Solver()
    board = z3.String("board")
    member = {p: z3.Or([board == z3.StringVal(b) for b in bs]) for p, bs in sp.items()}
    in_any = z3.Or(list(member.values()))
    twice = z3.Or([z3.And(member[p], member[q]) for p in sp for q in sp if p < q] or [z3.BoolVal(False)])
    s.add(in_any, twice)
    r = str(s.check())
    res.queries = 2
    res.sample = {"obligation": res.oid, "platforms": {p: len(bs) for p, bs in sp.items()}}
    if r == "sat":
        b = s.model()[board].as_string()
        owners = [p for p, bs in sp.items() if b in bs]
        if len(owners) > 1:
            res.verdict = "violation"
            res.detail = f"board {b!r} is registered for several platforms: {owners}"
            res.witness = {"board": b, "class": "duplicate-board"}
        else:
            res.verdict, res.detail = "harness-error", "partition model did not replay"
        return res
    if r != "unsat":
        res.verdict, res.detail = "inconclusive", "unknown"
        return res
    # BOARD_TO_PLATFORM agrees with the tables
    for p, bs in sp.items():
        for b in bs:
            if pio.BOARD_TO_PLATFORM.get(b) != p:
                res.verdict = "violation"
                res.detail = f"BOARD_TO_PLATFORM[{b!r}] = {pio.BOARD_TO_PLATFORM.get(b)!r}, registered under {p!r}"
                res.witness = {"board": b, "class": "owner-mismatch"}
                return res
    dup_in_list = [(p, b) for p, bs in sp.items() for b in set(bs) if list(bs).count(b) > 1]
    if dup_in_list:
        res.detail = f"note: duplicate entries inside one platform list: {dup_in_list[:3]}"
    return res


PORTS = ["COM3", "/dev/ttyACM0", "/dev/tty.usbmodem 14101", "COM=3", "port:1", "a#b", "semi;colon", "100%", "%(x)s", "café",
         "[env:x]", "x = y", "tab\there"]
LIBS = [[], ["Servo"], ["Servo", "Servo"], ["", "Servo", ""], ["Wire", "", "Servo", "Wire"], ["LiquidCrystal", "Servo"],
        ["b", "a", "b", "c", "a"], None, [""]]
SOURCES = ["void setup(){}\nvoid loop(){}\n", "// café … ü\n", ""]


def project_obligation(item):
    """Real write_project with pathlib replaced by a recorder, over ports x library lists x sources x boards
    (finite enumeration); the ini is read back with configparser(interpolation=None)."""
    res = Result(item[1], "holds", nontrivial=False)
    n = 0
    for port in PORTS:
        for libs in LIBS:
            for src in SOURCES:
                for bi in range(4):
                    n += 1
                    problem = _project_case(port, libs, src, bi)
                    if problem:
                        res.verdict = "violation"
                        res.detail = f"{problem} (port={port!r}, libs={libs!r}, board #{bi})"
                        res.witness = {"port": port, "libs": libs, "source": src, "class": problem[:60]}
                        return res
    res.queries = n
    res.sample = {"obligation": res.oid, "cases": n, "ports": PORTS[:4], "libs": LIBS[:5]}
    return res


def _project_case(port, libs, src, bi):
    log = []

    class FakePath:
        def __init__(self, *parts):
            self.s = "/".join(str(p.s if isinstance(p, FakePath) else p) for p in parts)

        def __truediv__(self, o):
            return FakePath(self.s, o)

        def __str__(self):
            return self.s

        def mkdir(self, parents=False, exist_ok=False):
            log.append(("mkdir", self.s))

        def write_text(self, data, encoding=None):
            log.append(("write", self.s, data, encoding))
            return len(data)
    hw = pysym.HostWorld(stub_top=True, patched=False, overrides={"pathlib": types.SimpleNamespace(Path=FakePath)})
    P = hw.load("Reduino.toolchain.pio")
    sp = P.SUPPORTED_PLATFORMS
    pairs = [(p, sorted(bs)[k]) for p, bs in sorted(sp.items()) for k in (0, len(bs) - 1)]
    platform, board = pairs[bi % len(pairs)]
    P.write_project(FakePath("/PROJ"), src, port, platform=platform, board=board, lib_deps=libs)
    writes = {e[1]: e for e in log if e[0] == "write"}
    if writes.get("/PROJ/src/main.cpp", (None,) * 3)[2] != src:
        return "main.cpp does not receive the source verbatim"
    if not all(e[3] == "utf-8" for e in writes.values()):
        return "a file is not written as UTF-8"
    if sorted({e[1] for e in log}) != ["/PROJ/platformio.ini", "/PROJ/src", "/PROJ/src/main.cpp"]:
        return "something other than src/, src/main.cpp and platformio.ini is touched"
    ini = writes.get("/PROJ/platformio.ini")
    cp = configparser.ConfigParser(interpolation=None)
    try:
        cp.read_string(ini[2])
    except configparser.Error as e:
        return f"platformio.ini does not parse as INI ({type(e).__name__})"
    secs = cp.sections()
    if len(secs) != 1 or not secs[0].startswith("env:"):
        return "not exactly one environment"
    sec = cp[secs[0]]
    want_libs = []
    for x in (libs or []):
        if x and x not in want_libs:
            want_libs.append(x)
    got_libs = [x.strip() for x in sec.get("lib_deps", "").split("\n") if x.strip()]
    if sec.get("platform") != platform or sec.get("board") != board or sec.get("framework") != "arduino":
        return "platform/board/framework do not read back"
    if sec.get("upload_port") != port:
        return f"upload port reads back as {sec.get('upload_port')!r}"
    if got_libs != want_libs:
        return f"libraries read back as {got_libs!r}, expected first-seen de-duplication {want_libs!r}"
    if sorted(sec.keys()) != sorted(["platform", "board", "framework", "upload_port"] + (["lib_deps"] if want_libs else [])):
        return "unexpected keys in the environment"
    return None


def lemma_obligation(tier):
    res = Result("lemma/pio_helpers", "holds")
    pct = 90 if tier == "quick" else 600
    report, raw, dt = run_crosshair(os.path.join(VERIF, "vlib", "ch", "pio_lemmas.py"),
                                    {"MAXLEN": 2 if tier == "quick" else 3, "MAXN": 3 if tier == "quick" else 4},
                                    per_condition_timeout=pct, total_timeout=pct * 3 + 60)
    res.solver_s, res.queries = dt, 2
    res.sample = {"obligation": res.oid, "contracts": {k: v for k, v in report.items()}, "engine": "crosshair-tool"}
    from ..ch import pio_lemmas as real
    import re as _re
    for fn in ("lib_section_is_first_seen_dedup",):
        st, msg = report.get(fn, ("inconclusive", "no report line"))
        if st == "refuted":
            m = _re.search(r"calling \w+\((.*?)\)(?: \(which|\s*$)", msg)
            arg = None
            if m:
                try:
                    arg = eval(m.group(1), {"__builtins__": {}})
                except Exception:
                    arg = None
            if isinstance(arg, tuple) and len(arg) == 1:
                arg = arg[0]
            try:
                ok = getattr(real, fn)(arg)
            except Exception:
                ok = None
            if ok is False:
                res.verdict = "violation"
                res.detail = f"{fn} fails for {arg!r}"
                res.witness = {"input": repr(arg), "class": fn}
                return res
            res.verdict, res.detail = "harness-error", f"crosshair counterexample did not replay: {msg}"
            return res
        if st != "confirmed" and res.verdict == "holds":
            res.verdict, res.detail = "inconclusive", f"{fn}: {msg}"[:200]
    return res


def _work(item):
    kind = item[0]
    if kind == "registry":
        return registry_obligation(item)
    if kind == "partition":
        return partition_obligation(None)
    if kind == "project":
        return project_obligation(item)
    if kind == "lemma":
        return lemma_obligation(item[1])
    raise ValueError(kind)


def run(tier, seed, only=None):
    t0 = time.time()
    n = 8
    items = [("registry", f"registry/accepts[{i}/{n}]", i, n) for i in range(n)]
    items += [("partition", "registry/partition"), ("project", "project/round_trip"), ("lemma", tier)]
    if only:
        items = [i for i in items if only in str(i[1])]
    results = run_obligations(items, _work)
    return finish(
        "C13", "other", tier, seed, results, t0,
        explanation="Registry: the real validate_platform_board is called on every (platform, board) drawn from the live "
                    "registry plus systematic near-miss spellings (case, surrounding whitespace, truncation, separators) - "
                    "exhaustive enumeration of that finite domain, NOT a solver query (said so: a dict lookup on a symbolic "
                    "string is outside what the engines here encode); the partition claim is a "
                    "finite-domain z3 string query over the live tables.  Project files: the real write_project with pathlib "
                    "replaced by a recorder; the rendered ini is read back with configparser(interpolation=None) for awkward "
                    "printable ports and library lists with duplicates/empties; CrossHair (z3) checks _format_lib_section "
                    "against first-seen de-duplication and _sanitize_env_name for arbitrary short strings.",
        functions_encoded=["Reduino.toolchain.pio.validate_platform_board", "write_project", "_format_lib_section (CrossHair)",
                           "_sanitize_env_name (CrossHair)", "SUPPORTED_PLATFORMS/BOARD_TO_PLATFORM (z3 finite domain)"],
        bounds={"near misses per name": 11, "ports": len(PORTS), "library lists": len(LIBS),
                "CrossHair": "_format_lib_section: lists <= 3 strings of <= 2 chars (quick), <= 4 of <= 3 (thorough)"},
        assumptions=["ports are printable without newline and without leading/trailing blanks (an INI value cannot carry those)",
                     "the registry/near-miss part is exhaustive enumeration of a finite domain driven by the solver, not a "
                     "quantification over all strings"],
        stubs=["pathlib.Path -> recorder"],
        exhaustive=True,
    )


def replay(path):
    import json
    print(json.dumps(json.load(open(path)), indent=1)[:4000])
    return 0
