"""C13 - board registry validation is exact and project files round-trip."""
from __future__ import annotations

import configparser
import os
import time
import types

import z3

from .. import pysym
from ..common import Result, finish, run_obligations
from ..crosshair_run import run_crosshair
from ..hostcheck import claim, run_host_obligation
from ..lower import VERIF
from ..pysym import sym_int


def near_misses(name):
    out = {name.upper(), name.capitalize(), name + " ", " " + name, name + "\n", name[:-1], name + "x", name.replace("_", "-"),
           name.replace("_", ""), name.swapcase(), "\t" + name}
    out.discard(name)
    return sorted(out)


def registry_obligation(item):
    """Exhaustive over the finite domain (registry + near-miss spellings)^2 - enumeration, not a solver query."""
    _, oid, chunk, nchunks = item
    from Reduino.toolchain import pio as P
    res = Result(oid, "holds", nontrivial=False)
    sp = P.SUPPORTED_PLATFORMS
    platforms = sorted(sp)
    boards = sorted({b for bs in sp.values() for b in bs})
    pc = platforms + [m for p in platforms for m in near_misses(p)] + ["", "avr"]
    sample = boards[chunk::nchunks]
    bc = sample + [m for b in sample for m in near_misses(b)] + ["", "UNO"]
    n = 0
    for p in pc:
        for b in bc:
            n += 1
            try:
                P.validate_platform_board(p, b)
                accepted = True
            except ValueError:
                accepted = False
            except Exception as e:      # noqa: BLE001
                res.verdict = "violation"
                res.detail = f"validate_platform_board({p!r}, {b!r}) raised {type(e).__name__}"
                res.witness = {"platform": p, "board": b, "class": "wrong-exception"}
                return res
            registered = p in sp and b in tuple(sp[p])
            if accepted != registered:
                res.verdict = "violation"
                res.detail = (f"validate_platform_board({p!r}, {b!r}) {'accepts' if accepted else 'rejects'} a pair that is "
                              f"{'not ' if not registered else ''}registered")
                res.witness = {"platform": p, "board": b, "class": "accepts-unregistered" if accepted else "rejects-registered"}
                return res
    import re as _re
    for b in bc + pc:
        sname = P._sanitize_env_name(b)
        if not _re.fullmatch(r"[A-Za-z0-9_]*", sname):
            res.verdict = "violation"
            res.detail = f"_sanitize_env_name({b!r}) = {sname!r} is not an identifier"
            res.witness = {"board": b, "class": "sanitize"}
            return res
    res.queries = n
    res.sample = {"obligation": oid, "pairs_checked": n, "example": [pc[1], bc[-3]]}
    return res


def partition_obligation(_):
    """Every registered board belongs to exactly one platform (finite-domain z3 query over the live registry)."""
    from Reduino.toolchain import pio
    res = Result("registry/partition", "holds")
    sp = pio.SUPPORTED_PLATFORMS
    s = z3.Solver()
    board = z3.String("board")
    member = {p: z3.Or([board == z3.StringVal(b) for b in bs]) for p, bs in sp.items()}
    in_any = z3.Or(list(member.values()))
    twice = z3.Or([z3.And(member[p], member[q]) for p in sp for q in sp if p < q] or [z3.BoolVal(False)])
    s.add(in_any, twice)
    r = str(s.check())
    res.queries = 2
    res.sample = {"obligation": res.oid, "platforms": {p: len(bs) for p, bs in sp.items()}}
    if r == "sat":
        b = s.model()[board].as_string()
        owners = [p for p, bs in sp.items() if b in bs]
        if len(owners) > 1:
            res.verdict = "violation"
            res.detail = f"board {b!r} is registered for several platforms: {owners}"
            res.witness = {"board": b, "class": "duplicate-board"}
        else:
            res.verdict, res.detail = "harness-error", "partition model did not replay"
        return res
    if r != "unsat":
        res.verdict, res.detail = "inconclusive", "unknown"
        return res
    # BOARD_TO_PLATFORM agrees with the tables
    for p, bs in sp.items():
        for b in bs:
            if pio.BOARD_TO_PLATFORM.get(b) != p:
                res.verdict = "violation"
                res.detail = f"BOARD_TO_PLATFORM[{b!r}] = {pio.BOARD_TO_PLATFORM.get(b)!r}, registered under {p!r}"
                res.witness = {"board": b, "class": "owner-mismatch"}
                return res
    dup_in_list = [(p, b) for p, bs in sp.items() for b in set(bs) if list(bs).count(b) > 1]
    if dup_in_list:
        res.detail = f"note: duplicate entries inside one platform list: {dup_in_list[:3]}"
    return res


PORTS = ["COM3", "/dev/ttyACM0", "/dev/tty.usbmodem 14101", "COM=3", "port:1", "a#b", "semi;colon", "100%", "%(x)s", "café",
         "[env:x]", "x = y", "tab\there", "{lib_section}", "{port}", "{board}{platform}", "{0}", "{}", "${sysenv.PORT}", "{{x}}",
         "COM3\\", "a=b=c", ";lead", "#lead", "trail;", "quote\"d", "it's"]
LIBS = [[], ["Servo"], ["Servo", "Servo"], ["", "Servo", ""], ["Wire", "", "Servo", "Wire"], ["LiquidCrystal", "Servo"],
        ["b", "a", "b", "c", "a"], None, [""]]
SOURCES = ["void setup(){}\nvoid loop(){}\n", "// café … ü\n", ""]


PRIORS = ["absent", "same", "crlf", "cr", "other", "longer"]


def _prior_text(kind, text):
    if kind == "same":
        return text
    if kind == "crlf":
        return text.replace("\n", "\r\n")
    if kind == "cr":
        return text.replace("\n", "\r")
    if kind == "other":
        return "// stale\n"
    return text + "// trailing stale bytes\n"


_AUDIT = {"armed": False, "root": None, "outside": []}
_WRITE_EVENTS = ("os.mkdir", "os.remove", "os.rename", "os.rmdir", "os.symlink", "os.link", "os.chmod", "os.truncate",
                 "os.chown", "os.utime", "shutil.rmtree", "shutil.move", "shutil.copyfile")


def _audit(event, args):
    if not _AUDIT["armed"]:
        return
    paths = []
    if event == "open":
        path, mode, flags = (tuple(args) + (None, None, None))[:3]
        writing = (isinstance(mode, str) and any(c in mode for c in "wax+")) or (
            isinstance(flags, int) and flags & (os.O_WRONLY | os.O_RDWR | os.O_CREAT | os.O_TRUNC | os.O_APPEND))
        if writing and isinstance(path, (str, bytes, os.PathLike)):
            paths.append(path)
    elif event in _WRITE_EVENTS:
        paths = [a for a in args[:2] if isinstance(a, (str, bytes, os.PathLike))]
    for q in paths:
        q = os.path.abspath(os.fsdecode(q))
        if not (q == _AUDIT["root"] or q.startswith(_AUDIT["root"] + os.sep)):
            _AUDIT["outside"].append((event, q))


def project_obligation(item):
    """Real write_project on a real scratch directory (created and removed here) whose prior contents vary, over
    ports x library lists x sources x boards (finite enumeration); an audit hook records every file-system write
    event of the process while the call runs; the ini is read back with configparser(interpolation=None)."""
    import shutil
    import sys
    import tempfile
    res = Result(item[1], "holds", nontrivial=False)
    from Reduino.toolchain import pio as P
    sys.addaudithook(_audit)
    base = tempfile.mkdtemp(prefix="verif-c13-")
    n = 0
    try:
        for port in PORTS:
            for libs in LIBS:
                for si, src in enumerate(SOURCES):
                    for bi in range(4):
                        prior = PRIORS[n % len(PRIORS)]
                        n += 1
                        problem = _project_case(P, base, n, port, libs, src, bi, prior)
                        if problem:
                            res.verdict = "violation"
                            res.detail = f"{problem} (port={port!r}, libs={libs!r}, board #{bi}, prior directory state: {prior})"
                            res.witness = {"port": port, "libs": libs, "source": src, "prior": prior, "class": problem[:60]}
                            return res
    finally:
        _AUDIT["armed"] = False
        shutil.rmtree(base, ignore_errors=True)
    res.queries = n
    res.sample = {"obligation": res.oid, "cases": n, "ports": PORTS[:4], "libs": LIBS[:5], "prior_states": PRIORS}
    return res


def _tree(root):
    out = {}
    for d, dirs, files in os.walk(root):
        for f in files:
            q = os.path.join(d, f)
            with open(q, "rb") as fh:
                out[os.path.relpath(q, root)] = fh.read()
        for x in dirs:
            out[os.path.relpath(os.path.join(d, x), root) + "/"] = None
    return out


def _project_case(P, base, n, port, libs, src, bi, prior):
    from pathlib import Path
    sp = P.SUPPORTED_PLATFORMS
    pairs = [(p, sorted(bs)[k]) for p, bs in sorted(sp.items()) for k in (0, len(bs) - 1)]
    platform, board = pairs[bi % len(pairs)]
    arena = os.path.join(base, f"case{n}")
    proj = os.path.join(arena, "proj")
    os.makedirs(os.path.join(arena, "sibling"))
    with open(os.path.join(arena, "sibling", "keep.txt"), "w") as f:
        f.write("keep")
    if prior != "absent":
        os.makedirs(os.path.join(proj, "src"))
        with open(os.path.join(proj, "src", "main.cpp"), "w", newline="") as f:
            f.write(_prior_text(prior, src))
        with open(os.path.join(proj, "platformio.ini"), "w", newline="") as f:
            f.write(_prior_text(prior, "[env:old]\nplatform = x\n"))
    before = _tree(arena)
    _AUDIT.update(armed=True, root=os.path.abspath(proj), outside=[])
    try:
        P.write_project(Path(proj), src, port, platform=platform, board=board, lib_deps=libs)
    except ValueError as e:
        return f"write_project refuses the registered pair ({platform!r}, {board!r}): {e}"[:160]
    finally:
        _AUDIT["armed"] = False
    if _AUDIT["outside"]:
        ev, q = _AUDIT["outside"][0]
        return f"writes outside the project directory ({ev} {q.replace(base, '<tmp>')})"
    after = _tree(arena)
    for k, v in before.items():
        if not k.startswith("proj") and after.get(k, "<gone>") != v:
            return "something outside the project directory changed"
    if any(k not in before and not k.startswith("proj") for k in after):
        return "something outside the project directory was created"
    try:
        with open(os.path.join(proj, "src", "main.cpp"), "rb") as f:
            got = f.read()
    except OSError:
        return "src/main.cpp is not written"
    if got != src.encode("utf-8"):
        return "main.cpp does not hold the source verbatim"
    try:
        with open(os.path.join(proj, "platformio.ini"), "rb") as f:
            ini = f.read().decode("utf-8")
    except (OSError, UnicodeDecodeError):
        return "platformio.ini is not written as UTF-8"
    cp = configparser.ConfigParser(interpolation=None)
    try:
        cp.read_string(ini)
    except configparser.Error as e:
        return f"platformio.ini does not parse as INI ({type(e).__name__})"
    secs = cp.sections()
    if len(secs) != 1 or not secs[0].startswith("env:"):
        return "not exactly one environment"
    sec = cp[secs[0]]
    want_libs = []
    for x in (libs or []):
        if x and x not in want_libs:
            want_libs.append(x)
    got_libs = [x.strip() for x in sec.get("lib_deps", "").split("\n") if x.strip()]
    if sec.get("platform") != platform or sec.get("board") != board or sec.get("framework") != "arduino":
        return "platform/board/framework do not read back"
    if sec.get("upload_port") != port:
        return f"upload port reads back as {sec.get('upload_port')!r}"
    if got_libs != want_libs:
        return f"libraries read back as {got_libs!r}, expected first-seen de-duplication {want_libs!r}"
    if sorted(sec.keys()) != sorted(["platform", "board", "framework", "upload_port"] + (["lib_deps"] if want_libs else [])):
        return "unexpected keys in the environment"
    shutil_rm(arena)
    return None


def shutil_rm(path):
    import shutil
    shutil.rmtree(path, ignore_errors=True)


def fs_lemma_obligation(tier):
    """CrossHair: final project state is independent of symbolic prior file contents; main.cpp verbatim."""
    res = Result("lemma/prior_state", "holds")
    pct = 60 if tier == "quick" else 400
    mod = os.path.join(VERIF, "vlib", "ch", "pio_fs_lemma.py")
    report, raw, dt = run_crosshair(mod, {"MAXLEN": 3 if tier == "quick" else 5}, per_condition_timeout=pct,
                                    total_timeout=pct * 2 + 60)
    res.solver_s, res.queries = dt, 1
    fn = "project_ignores_prior_state"
    st, msg = report.get(fn, ("inconclusive", "no report line: " + raw[-300:]))
    res.sample = {"obligation": res.oid, "contract": fn, "status": st, "engine": "crosshair-tool",
                  "bounds": "source and prior main.cpp / platformio.ini contents: arbitrary strings of <= 3 (quick) / 5 chars, or absent"}
    if st == "confirmed":
        return res
    if st == "refuted":
        import re as _re
        m = _re.search(r"calling \w+\((.*)\) \(which", msg)
        args = None
        if m:
            try:
                args = eval("(" + m.group(1) + ",)", {"__builtins__": {}})
            except Exception:
                args = None
        ok = None
        if isinstance(args, tuple) and len(args) == 3:
            from ..ch import pio_fs_lemma as real
            try:
                ok = real.replay_project_ignores_prior_state(*args)
            except Exception as e:      # noqa: BLE001
                ok = f"{type(e).__name__}: {e}"
        if ok is False:
            res.verdict = "violation"
            res.detail = (f"write_project(src={args[0]!r}) into a directory whose main.cpp held {args[1]!r} and platformio.ini "
                          f"{args[2]!r} does not leave the same files as into a fresh directory / main.cpp is not the source verbatim")
            res.witness = {"src": args[0], "prior_main": args[1], "prior_ini": args[2], "class": "prior-state"}
            return res
        res.verdict, res.detail = "inconclusive", f"counterexample did not replay ({ok!r}): {msg}"[:300]
        return res
    res.verdict, res.detail = "inconclusive", f"{fn}: {msg}"[:300]
    return res


def lemma_obligation(tier):
    res = Result("lemma/pio_helpers", "holds")
    pct = 90 if tier == "quick" else 600
    report, raw, dt = run_crosshair(os.path.join(VERIF, "vlib", "ch", "pio_lemmas.py"),
                                    {"MAXLEN": 2 if tier == "quick" else 3, "MAXN": 3 if tier == "quick" else 4},
                                    per_condition_timeout=pct, total_timeout=pct * 3 + 60)
    res.solver_s, res.queries = dt, 2
    res.sample = {"obligation": res.oid, "contracts": {k: v for k, v in report.items()}, "engine": "crosshair-tool"}
    from ..ch import pio_lemmas as real
    import re as _re
    for fn in ("lib_section_is_first_seen_dedup",):
        st, msg = report.get(fn, ("inconclusive", "no report line"))
        if st == "refuted":
            m = _re.search(r"calling \w+\((.*?)\)(?: \(which|\s*$)", msg)
            arg = None
            if m:
                try:
                    arg = eval(m.group(1), {"__builtins__": {}})
                except Exception:
                    arg = None
            if isinstance(arg, tuple) and len(arg) == 1:
                arg = arg[0]
            try:
                ok = getattr(real, fn)(arg)
            except Exception:
                ok = None
            if ok is False:
                res.verdict = "violation"
                res.detail = f"{fn} fails for {arg!r}"
                res.witness = {"input": repr(arg), "class": fn}
                return res
            res.verdict, res.detail = "harness-error", f"crosshair counterexample did not replay: {msg}"
            return res
        if st != "confirmed" and res.verdict == "holds":
            res.verdict, res.detail = "inconclusive", f"{fn}: {msg}"[:200]
    return res


def _work(item):
    kind = item[0]
    if kind == "registry":
        return registry_obligation(item)
    if kind == "partition":
        return partition_obligation(None)
    if kind == "project":
        return project_obligation(item)
    if kind == "lemma":
        return lemma_obligation(item[1])
    if kind == "fslemma":
        return fs_lemma_obligation(item[1])
    raise ValueError(kind)


def run(tier, seed, only=None):
    t0 = time.time()
    n = 8
    items = [("registry", f"registry/accepts[{i}/{n}]", i, n) for i in range(n)]
    items += [("partition", "registry/partition"), ("project", "project/round_trip"), ("lemma", tier),
              ("fslemma", tier, "lemma/prior_state")]
    if only:
        items = [i for i in items if only in str(i[1:])]
    results = run_obligations(items, _work)
    return finish(
        "C13", "other", tier, seed, results, t0,
        explanation="Registry: the real validate_platform_board is called on every (platform, board) drawn from the live "
                    "registry plus systematic near-miss spellings (case, surrounding whitespace, truncation, separators) - "
                    "exhaustive enumeration of that finite domain, NOT a solver query (said so: a dict lookup on a symbolic "
                    "string is outside what the engines here encode); the partition claim is a "
                    "finite-domain z3 string query over the live tables.  Project files: (a) CrossHair (z3) runs the real write_project "
                    "against an in-memory file system whose prior main.cpp / platformio.ini contents are symbolic strings (or "
                    "absent) and decides that the final files equal those of a fresh directory and main.cpp is the source "
                    "verbatim; (b) the real write_project writes into a real scratch directory with six prior states while an "
                    "audit hook records every write-type file-system event of the process; the ini is read back with "
                    "configparser(interpolation=None) for awkward "
                    "printable ports and library lists with duplicates/empties; CrossHair (z3) checks _format_lib_section "
                    "against first-seen de-duplication and _sanitize_env_name for arbitrary short strings.",
        functions_encoded=["Reduino.toolchain.pio.validate_platform_board", "write_project", "_format_lib_section (CrossHair)",
                           "_sanitize_env_name (CrossHair)", "SUPPORTED_PLATFORMS/BOARD_TO_PLATFORM (z3 finite domain)"],
        bounds={"near misses per name": 11, "ports": len(PORTS), "library lists": len(LIBS),
                "CrossHair": "_format_lib_section: lists <= 3 strings of <= 2 chars (quick), <= 4 of <= 3 (thorough)"},
        assumptions=["ports are printable without newline and without leading/trailing blanks (an INI value cannot carry those)",
                     "the registry/near-miss part is exhaustive enumeration of a finite domain driven by the solver, not a "
                     "quantification over all strings"],
        stubs=["pathlib.Path -> in-memory file system with universal-newline text reads (CrossHair lemma only)"],
        exhaustive=True,
    )


def replay(path):
    import json
    print(json.dumps(json.load(open(path)), indent=1)[:4000])
    return 0
