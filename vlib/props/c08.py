"""C08 - device calls bind arguments exactly like the Python signatures do.

For every device constructor, device method and Core pin helper the set of calling conventions Python accepts is
described by constraints derived from inspect.signature of the real host class (positional prefix, keyword-only
parameters, defaults) over symbolic shape variables (how each parameter is passed; keyword order).  z3 enumerates
ALL models of those constraints (blocking clauses until unsat), each model is rendered as a call with distinct
marker values, and the real parse()+emit() must either reject it or produce exactly the firmware of the canonical
fully explicit call (every parameter written out with the value Python binds, defaults included).  Each shape is
also rendered in re-spellings Python's tokenizer treats alike (blanks around the `=` of a keyword argument, around
commas and inside the parentheses: 40 spellings, all of them for the first six keyword shapes of a signature, one per
shape round-robin for the rest).  Per method, two calls with different marker values in one block must give the
firmware of the first call followed by the firmware of the second (a call's binding does not depend on its neighbours).
"""
from __future__ import annotations

import inspect
import time

import z3

from .. import lower
from ..common import Result, finish, run_obligations

HDR = '''from Reduino import target
target("COM3", upload=False)
from Reduino.Communication import SerialMonitor
from Reduino.Core import analog_read, digital_read, digital_write, analog_write, pin_mode, OUTPUT, INPUT, HIGH, LOW
from Reduino.Utils import sleep
from Reduino.Actuators import Led, RGBLed, Servo, DCMotor, Buzzer
from Reduino.Sensors import Button, Potentiometer, Ultrasonic
from Reduino.Displays import LCD
mon = SerialMonitor(9600, "COM3")
'''

# marker value (source text) per parameter name; chosen valid for the parameter and pairwise distinct per call
VALUES = {
    "pin": "7", "red_pin": "3", "green_pin": "5", "blue_pin": "6", "in1": "4", "in2": "8", "enable": "11",
    "trig": "2", "echo": "12", "min_angle": "10", "max_angle": "170", "min_pulse_us": "1000", "max_pulse_us": "2000",
    "default_frequency": "523", "value": "0.25", "duration_ms": "120", "times": "2", "step": "64", "delay_ms": "30",
    "pattern": "[1, 0, 1]", "red": "11", "green": "22", "blue": "33", "steps": "3", "angle": "45", "pulse": "1500",
    "speed": "0.5", "target_speed": "-0.5", "frequency": "440", "on_ms": "40", "off_ms": "50", "start_hz": "300",
    "end_hz": "600", "name": '"success"', "tempo": "150", "col": "1", "row": "0", "text": '"hi"', "clear_row": "False",
    "align": '"right"', "top": '"T"', "bottom": '"B"', "top_align": '"center"', "bottom_align": '"right"',
    "clear_rows": "False", "on": "False", "level": "99", "slot": "2", "bitmap": "[1, 2, 3, 4, 5, 6, 7, 8]",
    "max_value": "50", "width": "8", "style": '"hash"', "label": '"L"', "animation": '"blink"', "speed_ms": "90",
    "loop": "True", "mode": "OUTPUT", "sensor": '"HC-SR04"',
}
PIN_VALUES_CORE = {"pin": "9"}

# device -> (constructor text, follow-up statements that make constructor binding observable)
DEVICES = {
    "Led": ("led", "Led({args})", "led.on()\n"),
    "RGBLed": ("rgb", "RGBLed({args})", "rgb.set_color(1, 2, 3)\n"),
    "Servo": ("servo", "Servo({args})", "servo.write(90)\nservo.write_us(1500)\n"),
    "DCMotor": ("motor", "DCMotor({args})", "motor.set_speed(1.0)\n"),
    "Buzzer": ("bz", "Buzzer({args})", "bz.beep()\n"),
    "Button": ("btn", "Button({args})", "mon.write(btn.is_pressed())\n"),
    "Potentiometer": ("pot", "Potentiometer({args})", "mon.write(pot.read())\n"),
    "Ultrasonic": ("us", "Ultrasonic({args})", "mon.write(us.measure_distance())\n"),
}
DEFAULT_CTOR = {"Led": "led = Led(13)", "RGBLed": "rgb = RGBLed(3, 5, 6)", "Servo": "servo = Servo(9)",
                "DCMotor": "motor = DCMotor(4, 8, 11)", "Buzzer": "bz = Buzzer(10)", "LCD": "lcd = LCD(i2c_addr=0x27, cols=16, rows=2)",
                "LCDP": "lcd = LCD(rs=12, en=11, d4=5, d5=4, d6=3, d7=2, backlight_pin=9)"}
SKIP_PARAMS = {"state_provider", "distance_provider", "value_provider", "default_distance", "on_click", "model", "sensor"}
SKIP_METHODS = {"get_state", "get_brightness", "get_color", "read", "read_us", "get_speed", "get_applied_speed", "is_inverted",
                "get_mode", "set_pressed", "dump", "begin", "tick", "stop", "off", "coast", "invert", "toggle", "clear",
                "is_pressed", "measure_distance"}


def host_class(name):
    import importlib
    for modname in ("Reduino.Actuators", "Reduino.Sensors", "Reduino.Displays"):
        m = importlib.import_module(modname)
        if hasattr(m, name):
            return getattr(m, name)
    raise KeyError(name)


def shapes_for(sig: inspect.Signature):
    """All calling conventions Python accepts for sig (skipping `self`), enumerated by z3.
    A shape = list of (param name, how) with how in {'pos','kw','omit'} plus a keyword order flag."""
    params = [p for p in sig.parameters.values() if p.name != "self" and p.name not in SKIP_PARAMS
              and p.kind in (p.POSITIONAL_OR_KEYWORD, p.KEYWORD_ONLY, p.POSITIONAL_ONLY)]
    how = {p.name: z3.Int("how_" + p.name) for p in params}     # 0 pos, 1 kw, 2 omitted
    rev = z3.Bool("kw_reversed")
    s = z3.Solver()
    for i, p in enumerate(params):
        h = how[p.name]
        s.add(h >= 0, h <= 2)
        if p.kind == p.KEYWORD_ONLY:
            s.add(h != 0)
        if p.kind == p.POSITIONAL_ONLY:
            s.add(h != 1)
        if p.default is inspect.Parameter.empty:
            s.add(h != 2)
        # positional arguments form a prefix of the parameter list
        if i > 0:
            s.add(z3.Implies(h == 0, how[params[i - 1].name] == 0))
    out = []
    while str(s.check()) == "sat":
        m = s.model()
        shape = [(p.name, ("pos", "kw", "omit")[m.eval(how[p.name], model_completion=True).as_long()]) for p in params]
        r = z3.is_true(m.eval(rev, model_completion=True))
        nkw = sum(1 for _, h in shape if h == "kw")
        if nkw < 2 and r:
            s.add(z3.Or([how[p.name] != m.eval(how[p.name], model_completion=True) for p in params] + [z3.Not(rev)]))
            continue
        out.append((shape, r))
        s.add(z3.Or([how[p.name] != m.eval(how[p.name], model_completion=True) for p in params] + [rev != r]))
        if len(out) > 400:
            break
    return params, out


# spellings Python's tokenizer treats alike: blanks around `=` of a keyword argument, around commas, inside the parentheses
EQ_SPELLINGS = ("=", " = ", " =", "= ", "  =  ")
COMMA_SPELLINGS = (", ", ",", " , ", ",  ")
PAD_SPELLINGS = ("", " ")
SPELLINGS = [(e, c, p) for e in EQ_SPELLINGS for c in COMMA_SPELLINGS for p in PAD_SPELLINGS]


def render(shape, rev, values, spelling=("=", ", ", "")):
    eq, comma, pad = spelling
    pos = [values[n] for n, h in shape if h == "pos"]
    kws = [f"{n}{eq}{values[n]}" for n, h in shape if h == "kw"]
    if rev:
        kws.reverse()
    inner = comma.join(pos + kws)
    return (pad + inner + pad) if inner else inner


def canonical(params, shape, values):
    """Fully explicit call: every parameter written, positional where allowed, value = what Python binds."""
    parts = []
    given = dict(shape)
    for p in params:
        if given[p.name] == "omit":
            if p.default is None:
                continue          # 'None' means "not given" for these APIs: keep it omitted
            v = repr(p.default)
        else:
            v = values[p.name]
        if p.kind == p.KEYWORD_ONLY:
            parts.append(f"{p.name}={v}")
        else:
            parts.append(v)
    # positional parameters after an omitted None-default one must become keywords
    out = []
    gap = False
    for p in params:
        if given[p.name] == "omit" and p.default is None:
            gap = True
            continue
        v = values[p.name] if given[p.name] != "omit" else repr(p.default)
        if p.kind == p.KEYWORD_ONLY or gap:
            out.append(f"{p.name}={v}")
        else:
            out.append(v)
    return ", ".join(out)


ALT_VALUES = {
    "value": "0.75", "duration_ms": "70", "times": "3", "step": "32", "delay_ms": "45", "pattern": "[0, 1, 1, 0]", "red": "44", "green": "55",
    "blue": "66", "steps": "2", "angle": "120", "pulse": "1200", "speed": "-0.25", "target_speed": "0.75", "frequency": "660",
    "on_ms": "15", "off_ms": "25", "start_hz": "500", "end_hz": "200", "name": '"error"', "tempo": "90", "col": "2", "row": "1",
    "text": '"yo"', "align": '"center"', "top": '"U"', "bottom": '"D"', "level": "12", "slot": "3", "bitmap": "[8, 7, 6, 5, 4, 3, 2, 1]",
    "max_value": "20", "width": "5", "style": '"dot"', "label": '"M"', "speed_ms": "40", "on": "True",
}


def _loop_body(cpp):
    i = cpp.find("void loop() {")
    if i < 0:
        return ""
    body = cpp[i + len("void loop() {"):]
    return body[:body.rfind("}")]


def _canon(bodies):
    """Blank lines dropped; numbered helper identifiers renamed in order of first appearance.  `bodies` is a list of
    texts that are renamed one after the other: each starts with a fresh name table (the same identifier in two
    separately emitted bodies is two different objects) while the numbering runs on."""
    import re
    out = []
    count = [0]
    for text in bodies:
        seen = {}

        def ren(m):
            if m.group(0) not in seen:
                seen[m.group(0)] = f"{m.group(1)}#{count[0]}"
                count[0] += 1
            return seen[m.group(0)]
        text = "\n".join(ln.rstrip() for ln in _norm(text).split("\n") if ln.strip())
        out.append(re.sub(r"\b(__redu_[A-Za-z_]*?|__tmp_[A-Za-z_]*?)(\d+)\b", ren, text))
    return "\n".join(out)


def transpile_or_reject(src):
    try:
        return "ok", lower.transpile(src)
    except (ValueError, SyntaxError) as e:
        return "rejected", str(e)[:100]
    except Exception as e:       # noqa: BLE001
        return "crash", f"{type(e).__name__}: {e}"[:160]


def _norm(cpp):
    """Spelling of numeric literals is not a binding difference: 100.0 / 100.0f / 100 compare equal."""
    import re
    return re.sub(r"\b(\d+)\.0+f?\b", r"\1", cpp)


def method_obligation(item):
    _, oid, kind, cls_name, meth, decl_key = item
    res = Result(oid, "holds")
    values = dict(VALUES)
    if kind == "ctor":
        cls = host_class(cls_name)
        sig = inspect.signature(cls.__init__) if inspect.isclass(cls) else inspect.signature(cls)
        var, ctor_tpl, follow = DEVICES[cls_name]
        if cls_name == "Potentiometer":
            values["pin"] = '"A2"'

        def script(args):
            return HDR + f"{var} = {ctor_tpl.format(args=args)}\nwhile True:\n" + "".join("    " + ln + "\n" for ln in follow.strip().split("\n"))
    elif kind == "method":
        cls = host_class(cls_name)
        sig = inspect.signature(getattr(cls, meth))
        decl = DEFAULT_CTOR[decl_key]
        var = decl.split(" = ")[0]
        if cls_name == "LCD" and meth == "animate":
            values["row"] = "1"

        def script(args):
            return HDR + decl + f"\nwhile True:\n    {var}.{meth}({args})\n"
    else:  # core helper
        import Reduino.Core as C
        sig = inspect.signature(getattr(C, meth))
        values.update(PIN_VALUES_CORE)
        values["value"] = "1" if meth == "digital_write" else "77"

        def script(args):
            if meth in ("digital_read", "analog_read"):
                return HDR + f"while True:\n    mon.write({meth}({args}))\n"
            return HDR + f"while True:\n    {meth}({args})\n"
    params, shapes = shapes_for(sig)
    missing = [p.name for p in params if p.name not in values]
    if missing:
        res.verdict, res.detail = "inconclusive", f"no marker value for parameters {missing}"
        return res
    res.queries = len(shapes) + 1
    res.sample = {"obligation": oid, "signature": str(sig), "shapes": len(shapes),
                  "example": render(*shapes[0], values) if shapes else ""}
    n_acc = 0
    # every shape in the compact spelling; plus re-spellings (blanks around `=`, commas, parentheses): all of them for
    # the first shapes that use a keyword, one per shape (round-robin) for the rest
    work = []
    kw_seen = 0
    for i, (shape, rev) in enumerate(shapes):
        work.append((shape, rev, SPELLINGS[0]))
        has_kw = any(h == "kw" for _, h in shape)
        if has_kw and kw_seen < 6:
            kw_seen += 1
            work += [(shape, rev, sp) for sp in SPELLINGS[1:]]
        else:
            work.append((shape, rev, SPELLINGS[1 + i % (len(SPELLINGS) - 1)]))
    res.queries = len(work) + 1
    res.sample["spellings"] = len(SPELLINGS)
    for shape, rev, spelling in work:
        args = render(shape, rev, values, spelling)
        canon = canonical(params, shape, values)
        st, out = transpile_or_reject(script(args))
        if st == "crash":
            res.verdict = "violation"
            res.detail = f"transpiler crashed on {meth or cls_name}({args}): {out}"
            res.witness = {"call": args, "class": "crash"}
            return res
        if st == "rejected":
            continue
        n_acc += 1
        st2, out2 = transpile_or_reject(script(canon))
        if st2 != "ok":
            # canonical spelling rejected although a shorthand is accepted: compare with the all-supplied shorthand
            continue
        if _norm(out) != _norm(out2):
            import difflib
            d = [x for x in difflib.unified_diff(out2.split("\n"), out.split("\n"), lineterm="", n=0)][2:8]
            res.verdict = "violation"
            res.detail = (f"{cls_name}.{meth or '__init__'}({args}) is bound differently from the explicit call ({canon}): "
                          + " | ".join(d))[:400]
            res.witness = {"call": args, "canonical": canon, "class": f"{cls_name}.{meth}"}
            return res
    # compositionality: two calls of the method in one block (different values) must give the firmware of the first
    # call followed by the firmware of the second - a call's binding must not depend on its neighbours
    if kind in ("method", "core") and shapes and meth != "animate":      # (animation ticks are hoisted to the top of loop())
        v2 = dict(values)
        for k, v in list(v2.items()):
            v2[k] = ALT_VALUES.get(k, v)
        full = [(p.name, "kw" if p.kind == p.KEYWORD_ONLY else "pos") for p in params]
        a1, a2 = render(full, False, values), render(full, False, v2)
        if a1 != a2:
            one = script(a1)
            two_src = one.rstrip("\n") + "\n" + [ln for ln in script(a2).split("\n") if ln.strip()][-1] + "\n"
            st1, o1 = transpile_or_reject(script(a1))
            st2, o2 = transpile_or_reject(script(a2))
            st12, o12 = transpile_or_reject(two_src)
            if st1 == st2 == st12 == "ok":
                res.queries += 3
                b1, b2, b12 = _loop_body(o1), _loop_body(o2), _loop_body(o12)
                if _canon([b12]) != _canon([b1, b2]):
                    import difflib
                    d = [x for x in difflib.unified_diff(_canon([b1, b2]).split("\n"), _canon([b12]).split("\n"), lineterm="", n=0)][2:8]
                    res.verdict = "violation"
                    res.detail = (f"{cls_name}.{meth}({a1}) followed by {cls_name}.{meth}({a2}) in one block is not bound like the "
                                  "two calls alone: " + " | ".join(d))[:400]
                    res.witness = {"call": a1 + " ; " + a2, "class": f"{cls_name}.{meth}/two-calls"}
                    return res
    res.sample["accepted_shapes"] = n_acc
    if n_acc == 0:
        res.verdict, res.detail = "inconclusive", "vacuous: the transpiler accepted none of the valid call shapes"
    return res


def obligations(tier):
    items = []
    for cls_name in DEVICES:
        items.append(("x", f"bind/{cls_name}.__init__", "ctor", cls_name, "", None))
    for cls_name, decl_key in (("Led", "Led"), ("RGBLed", "RGBLed"), ("Servo", "Servo"), ("DCMotor", "DCMotor"), ("Buzzer", "Buzzer"),
                               ("LCD", "LCD")):
        cls = host_class(cls_name)
        for meth, fn in inspect.getmembers(cls, predicate=inspect.isfunction):
            if meth.startswith("_") or meth in SKIP_METHODS:
                continue
            sig = inspect.signature(fn)
            if len([p for p in sig.parameters if p != "self"]) == 0:
                continue
            dk = "LCDP" if (cls_name == "LCD" and meth == "brightness") else decl_key
            items.append(("x", f"bind/{cls_name}.{meth}", "method", cls_name, meth, dk))
    for meth in ("pin_mode", "digital_write", "analog_write", "digital_read", "analog_read"):
        items.append(("x", f"bind/Core.{meth}", "core", "Core", meth, None))
    return items


def run(tier, seed, only=None):
    t0 = time.time()
    items = obligations(tier)
    if only:
        items = [i for i in items if only in i[1]]
    results = run_obligations(items, method_obligation)
    return finish(
        "C08", "other", tier, seed, results, t0,
        explanation="Calling conventions are symbolic: per parameter 'positional / keyword / omitted' plus keyword order, "
                    "constrained by what inspect.signature of the real host class allows (positional prefix, keyword-only, "
                    "required parameters).  z3 enumerates every model of that constraint system; each model is rendered with "
                    "distinct marker values and pushed through the real parse()+emit(); an accepted shape must yield exactly "
                    "the firmware of the fully explicit call in which every parameter carries the value Python binds "
                    "(defaults written out).  Rejection with ValueError is allowed by the property.",
        functions_encoded=["parser._extract_call_argument and every constructor/method dispatch block of _parse_simple_lines "
                           "(through the real parse())", "_to_c_expr Core helper binding", "inspect.signature of the host classes (reference)"],
        bounds={"keyword orders": "source order and reversed", "shapes per call": "all (<= 400)",
                "spellings": "40 blank-placement variants: all for the first 6 keyword shapes, one per shape (round-robin) otherwise"},
        assumptions=["provider/callback parameters (state_provider, value_provider, distance_provider, on_click, model/sensor "
                     "aliases, default_distance) are outside this check", "a default of None means 'not given'"],
        exhaustive=True,
    )


def replay(path):
    import json
    print(json.dumps(json.load(open(path)), indent=1)[:4000])
    return 0
