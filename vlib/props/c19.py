"""C19 - host actuator models keep their invariants under every operation history.

Inductive step per class: the object's fields are symbolic under the representation
invariant, one method is called with symbolic arguments (in-range, boundary,
out-of-range; ints, IEEE doubles, bools), the real method body runs on CPython with
z3 proxies (pysym), and on every feasible path the solver is asked for a model of
pc AND NOT(postcondition).  A sat answer is replayed on stock CPython before it is
reported.
"""
from __future__ import annotations

import time

import z3

from .. import pysym
from ..common import Result, finish, run_obligations
from ..hostcheck import claim, run_host_obligation
from ..pysym import F64, same_value, sym_bool, sym_float, sym_int, zbool, zfp, zint

RNE = z3.RNE()


def fpv(x):
    return z3.FPVal(x, F64)


def _sleep_recorder(hw):
    rec = []
    A = hw.load("Reduino.Actuators")
    A.sleep = lambda d, **k: rec.append(d)
    return A, rec


def _sum_fp(vals):
    tot = fpv(0.0)
    for v in vals:
        tot = z3.fpAdd(RNE, tot, zfp(v))
    return tot


# ------------------------------------------------------------------ Led
def led_inv(led):
    b = zint(led.brightness)
    return z3.And(b >= 0, b <= 255, zbool(led.state) == (b > 0))


def mk_led(A):
    led = A.Led(9)
    b = sym_int("pre_brightness", 0, 255)
    led.brightness = b
    led.state = b > 0
    return led, b


def led_simple(method):
    def body(hw):
        A, rec = _sleep_recorder(hw)
        led, b0 = mk_led(A)
        getattr(led, method)()
        claim("invariant", led_inv(led))
        if method == "on":
            claim("on sets 255", zint(led.brightness) == 255)
        elif method == "off":
            claim("off sets 0", zint(led.brightness) == 0)
        else:
            claim("toggle flips", zbool(led.state) == z3.Not(zint(b0) > 0))
        claim("no sleep", len(rec) == 0)
    return body


def led_set_brightness(kind):
    def body(hw):
        A, rec = _sleep_recorder(hw)
        led, b0 = mk_led(A)
        s0 = led.state
        v = sym_int("v", -(1 << 31), 1 << 31) if kind == "int" else sym_float("v")
        try:
            led.set_brightness(v)
        except ValueError:
            claim("failed call leaves brightness", same_value(led.brightness, b0))
            claim("failed call leaves state", same_value(led.state, s0))
            if kind == "int":
                claim("raises only out of range", z3.Or(zint(v) < 0, zint(v) > 255))
            return
        claim("invariant", led_inv(led))
        if kind == "int":
            claim("brightness is the argument", zint(led.brightness) == zint(v))
            claim("accepted only in range", z3.And(zint(v) >= 0, zint(v) <= 255))
        else:
            claim("accepted only in range", z3.And(z3.fpGEQ(zfp(v), fpv(0.0)), z3.fpLEQ(zfp(v), fpv(255.0))))
    return body


def led_blink(hw):
    A, rec = _sleep_recorder(hw)
    led, b0 = mk_led(A)
    s0 = led.state
    d = sym_int("duration", -(1 << 20), 1 << 20)
    times = sym_int("times", -2, 3)
    try:
        led.blink(d, times)
    except ValueError:
        claim("failed call leaves brightness", same_value(led.brightness, b0))
        claim("failed call leaves state", same_value(led.state, s0))
        claim("failed call does not sleep", len(rec) == 0)
        claim("raises only for bad args", z3.Or(zint(d) < 0, zint(times) <= 0))
        return
    claim("invariant", led_inv(led))
    claim("ends off", zint(led.brightness) == 0)
    n = len(rec)
    claim("sleep count is 2*times", zint(times) * 2 == n)
    claim("each sleep is duration", z3.And([zint(x) == zint(d) for x in rec]) if rec else z3.BoolVal(True))
    tot = z3.BitVecVal(0, 64)
    for x in rec:
        tot = tot + zint(x)
    claim("total sleep is 2*times*duration", tot == 2 * zint(times) * zint(d))


def led_fade(direction):
    def body(hw):
        A, rec = _sleep_recorder(hw)
        led, b0 = mk_led(A)
        s0 = led.state
        step = sym_int("step", -2, 255)
        pysym.eng().assume(z3.Or(zint(step) <= 0, zint(step) >= 64))
        delay = sym_int("delay", -2, 1000)
        seen = []
        orig = led.set_brightness

        def spy(v):
            orig(v)
            seen.append(led.brightness)
        led.set_brightness = spy
        try:
            getattr(led, direction)(step=step, delay_ms=delay)
        except ValueError:
            claim("failed call leaves brightness", same_value(led.brightness, b0))
            claim("failed call leaves state", same_value(led.state, s0))
            claim("failed call does not sleep", len(rec) == 0)
            claim("raises only for bad args", z3.Or(zint(step) <= 0, zint(delay) < 0))
            return
        claim("invariant", led_inv(led))
        claim("ends at limit", zint(led.brightness) == (255 if direction == "fade_in" else 0))
        mono = []
        prev = zint(b0)
        for x in seen:
            mono.append(zint(x) >= prev if direction == "fade_in" else zint(x) <= prev)
            prev = zint(x)
        claim("monotone", z3.And(mono) if mono else z3.BoolVal(True))
        claim("sleeps are the delay", z3.And([zint(x) == zint(delay) for x in rec]) if rec else z3.BoolVal(True))
    return body


def led_flash(hw):
    A, rec = _sleep_recorder(hw)
    led, b0 = mk_led(A)
    s0 = led.state
    n = 3
    pattern = [sym_int(f"p{i}", -2, 300) for i in range(n)]
    delay = sym_int("delay", -2, 1000)
    try:
        led.flash_pattern(pattern, delay)
    except ValueError:
        claim("invariant after failure", led_inv(led))
        bad_delay = zint(delay) < 0
        bad_entry = z3.Or([z3.Or(zint(p) < 0, zint(p) > 255) for p in pattern])
        claim("raises only for bad args", z3.Or(bad_delay, bad_entry))
        claim("invalid scalar leaves object", z3.Implies(bad_delay, z3.And(same_value(led.brightness, b0),
                                                                             same_value(led.state, s0))))
        return
    claim("invariant", led_inv(led))
    last = zint(pattern[-1])
    claim("ends on last entry", zint(led.brightness) == z3.If(last == 1, z3.BitVecVal(255, 64), last))
    claim("sleeps between entries", len(rec) == n - 1)


# ------------------------------------------------------------------ RGBLed
def rgb_inv(rgb):
    c = [zint(x) for x in rgb._color]
    return z3.And([z3.And(x >= 0, x <= 255) for x in c] + [zbool(rgb._state) == z3.Or([x > 0 for x in c])])


def mk_rgb(A):
    rgb = A.RGBLed(3, 5, 6)
    c = tuple(sym_int(f"pre_{n}", 0, 255) for n in "rgb")
    rgb._color = c
    rgb._state = (c[0] > 0) | (c[1] > 0) | (c[2] > 0)
    return rgb, c


def rgb_set_color(kind):
    def body(hw):
        A, rec = _sleep_recorder(hw)
        rgb, c0 = mk_rgb(A)
        s0 = rgb._state
        if kind == "int":
            args = [sym_int(n, -(1 << 31), 1 << 31) for n in ("r", "g", "b")]
        else:
            args = [sym_int("r", -5, 300), sym_float("g"), sym_int("b", -5, 300)]
        try:
            rgb.set_color(*args)
        except (ValueError, TypeError):
            claim("failed call leaves colour", same_value(rgb._color, c0))
            claim("failed call leaves state", same_value(rgb._state, s0))
            if kind == "int":
                claim("raises only out of range", z3.Or([z3.Or(zint(a) < 0, zint(a) > 255) for a in args]))
            return
        claim("invariant", rgb_inv(rgb))
        claim("colour is the argument", same_value(rgb._color, tuple(args)))
        claim("float component rejected", z3.BoolVal(kind == "int"))
    return body


def rgb_on_off(method):
    def body(hw):
        A, rec = _sleep_recorder(hw)
        rgb, c0 = mk_rgb(A)
        getattr(rgb, method)()
        claim("invariant", rgb_inv(rgb))
        want = (255, 255, 255) if method == "on" else (0, 0, 0)
        claim("colour", same_value(rgb._color, want))
    return body


def rgb_fade(steps, symch):
    """fade with `steps` concrete; channels in symch symbolic (pre-state and target), the others concrete."""
    def body(hw):
        A, rec = _sleep_recorder(hw)
        rgb = A.RGBLed(3, 5, 6)
        fixed_pre = {"r": 10, "g": 200, "b": 0}
        fixed_tgt = {"r": 255, "g": 0, "b": 0}
        c0 = tuple(sym_int(f"pre_{n}", 0, 255) if n in symch else fixed_pre[n] for n in "rgb")
        rgb._color = c0
        rgb._state = (c0[0] > 0) | (c0[1] > 0) | (c0[2] > 0)
        s0 = rgb._state
        tgt = [sym_int(n, -3, 258) if n in symch else fixed_tgt[n] for n in ("r", "g", "b")]
        dur = sym_int("duration", -2, 5000)
        seen = []
        orig = rgb.set_color

        def spy(*a):
            orig(*a)
            seen.append(rgb._color)
        rgb.set_color = spy
        try:
            rgb.fade(*tgt, duration_ms=dur, steps=steps)
        except (ValueError, TypeError):
            claim("failed call leaves colour", same_value(rgb._color, c0))
            claim("failed call leaves state", same_value(rgb._state, s0))
            claim("failed call does not sleep", len(rec) == 0)
            claim("raises only for bad args", z3.Or([zint(dur) < 0] + [z3.Or(zint(a) < 0, zint(a) > 255) for a in tgt]))
            return
        claim("invariant", rgb_inv(rgb))
        claim("ends exactly on target", same_value(rgb._color, tuple(tgt)))
        shortcut = z3.Or(zint(dur) == 0, same_value(c0, tuple(tgt)))
        claim("step count", z3.If(shortcut, z3.BoolVal(len(seen) == 1), z3.BoolVal(len(seen) == steps)))
        mono = []
        for ch in range(3):
            prev = zint(c0[ch])
            up = zint(tgt[ch]) >= zint(c0[ch])
            for col in seen:
                cur = zint(col[ch])
                mono.append(z3.If(up, cur >= prev, cur <= prev))
                prev = cur
        claim("monotone steps", z3.And(mono))
        tot = _sum_fp(rec)
        claim("never sleeps longer than requested", z3.fpLEQ(tot, zfp(dur)))
    return body


def rgb_fade_scalar_kinds(kind):
    """`steps` / `duration_ms` given as a non-integral float or a bool: the call either raises and leaves the LED
    exactly as it was, or performs a complete fade that ends exactly on the target."""
    def body(hw):
        A, rec = _sleep_recorder(hw)
        rgb = A.RGBLed(3, 5, 6)
        c0 = (10, 200, 0)
        rgb._color, rgb._state = c0, True
        tgt = (200, 100, 50)
        if kind == "float_steps":
            steps, dur = pysym.sym_float("steps", 0.25, 4.75), 100
        elif kind == "bool_steps":
            steps, dur = pysym.sym_bool("steps"), 100
        else:
            steps, dur = 2, pysym.sym_float("duration", -1.0, 500.0)
        try:
            rgb.fade(*tgt, duration_ms=dur, steps=steps)
        except (ValueError, TypeError):
            claim("failed call leaves colour", same_value(rgb._color, c0))
            claim("failed call leaves state", same_value(rgb._state, True))
            claim("failed call does not sleep", len(rec) == 0)
            return
        claim("invariant", rgb_inv(rgb))
        claim("a call that returns normally ends exactly on the target", same_value(rgb._color, tgt))
    return body


def rgb_blink(hw):
    A, rec = _sleep_recorder(hw)
    rgb, c0 = mk_rgb(A)
    s0 = rgb._state
    col = [sym_int(n, -3, 258) for n in ("r", "g", "b")]
    times = sym_int("times", -1, 2)
    delay = sym_int("delay", -2, 5000)
    try:
        rgb.blink(*col, times=times, delay_ms=delay)
    except (ValueError, TypeError):
        claim("failed call leaves colour", same_value(rgb._color, c0))
        claim("failed call leaves state", same_value(rgb._state, s0))
        claim("failed call does not sleep", len(rec) == 0)
        return
    claim("invariant", rgb_inv(rgb))
    claim("ends on original colour", same_value(rgb._color, c0))
    claim("sleep count", zint(times) * 2 == len(rec))
    tot = z3.BitVecVal(0, 64)
    for x in rec:
        tot = tot + zint(x)
    claim("total sleep 2*times*delay", tot == 2 * zint(times) * zint(delay))


# ------------------------------------------------------------------ Servo
SERVO_CONFIGS = {
    "default": dict(),
    "custom": dict(min_angle=-45.0, max_angle=45.0, min_pulse_us=1000.0, max_pulse_us=2000.0),
}


def mk_servo(hw, cfg):
    A, rec = _sleep_recorder(hw)
    s = A.Servo(9, **SERVO_CONFIGS[cfg])
    return s


def servo_bounds(s):
    return (fpv(s._min_angle), fpv(s._max_angle), fpv(s._min_pulse), fpv(s._max_pulse))


def servo_write(cfg, kind):
    def body(hw):
        s = mk_servo(hw, cfg)
        a0, p0 = s._current_angle, s._current_pulse
        mina, maxa, minp, maxp = servo_bounds(s)
        if kind == "float":
            v = sym_float("angle")
        elif kind == "grid":
            # every angle on a 1/8-degree grid from -37.5 to 218.4 (an 11-bit variable: exact in binary64)
            v = (pysym.eng().new_input("sym", "angle8", 32, 0, 2047) - 300) / 8.0
        else:
            v = sym_int("angle", -(1 << 20), 1 << 20)
        try:
            s.write(v)
        except ValueError:
            claim("failed call leaves angle", same_value(s._current_angle, a0))
            claim("failed call leaves pulse", same_value(s._current_pulse, p0))
            claim("raises only out of range", z3.Not(z3.And(z3.fpLEQ(mina, zfp(v)), z3.fpLEQ(zfp(v), maxa))))
            return
        ang, pul = zfp(s._current_angle), zfp(s._current_pulse)
        claim("read returns written angle", z3.fpEQ(zfp(s.read()), zfp(v)))
        claim("angle within bounds", z3.And(z3.fpLEQ(mina, ang), z3.fpLEQ(ang, maxa)))
        claim("pulse within bounds", z3.And(z3.fpLEQ(minp, pul), z3.fpLEQ(pul, maxp)))
        # linear correspondence: pulse = minp + (ang-mina)/(maxa-mina)*(maxp-minp), to 1e-9 relative of the span
        span_a = z3.fpSub(RNE, maxa, mina)
        span_p = z3.fpSub(RNE, maxp, minp)
        lhs = z3.fpMul(RNE, z3.fpSub(RNE, pul, minp), span_a)
        rhs = z3.fpMul(RNE, z3.fpSub(RNE, ang, mina), span_p)
        tol = z3.fpMul(RNE, z3.fpMul(RNE, span_a, span_p), fpv(1e-9))
        claim("angle and pulse correspond under the linear map", z3.fpLEQ(z3.fpAbs(z3.fpSub(RNE, lhs, rhs)), tol))
    return body


def servo_write_us(cfg, kind):
    def body(hw):
        s = mk_servo(hw, cfg)
        a0, p0 = s._current_angle, s._current_pulse
        mina, maxa, minp, maxp = servo_bounds(s)
        if kind == "float":
            v = sym_float("pulse")
        elif kind == "grid":
            # every pulse width on a half-microsecond grid from 400 to 2447.5 (a 12-bit variable)
            v = pysym.eng().new_input("sym", "pulse2", 32, 0, 4095) / 2.0 + 400
        else:
            v = sym_int("pulse", -(1 << 20), 1 << 20)
        try:
            s.write_us(v)
        except ValueError:
            claim("failed call leaves angle", same_value(s._current_angle, a0))
            claim("failed call leaves pulse", same_value(s._current_pulse, p0))
            claim("raises only out of range", z3.Not(z3.And(z3.fpLEQ(minp, zfp(v)), z3.fpLEQ(zfp(v), maxp))))
            return
        ang, pul = zfp(s._current_angle), zfp(s._current_pulse)
        claim("read_us returns written pulse", z3.fpEQ(zfp(s.read_us()), zfp(v)))
        claim("angle within bounds", z3.And(z3.fpLEQ(mina, ang), z3.fpLEQ(ang, maxa)))
        claim("pulse within bounds", z3.And(z3.fpLEQ(minp, pul), z3.fpLEQ(pul, maxp)))
        span_a = z3.fpSub(RNE, maxa, mina)
        span_p = z3.fpSub(RNE, maxp, minp)
        lhs = z3.fpMul(RNE, z3.fpSub(RNE, pul, minp), span_a)
        rhs = z3.fpMul(RNE, z3.fpSub(RNE, ang, mina), span_p)
        tol = z3.fpMul(RNE, z3.fpMul(RNE, span_a, span_p), fpv(1e-9))
        claim("angle and pulse correspond under the linear map", z3.fpLEQ(z3.fpAbs(z3.fpSub(RNE, lhs, rhs)), tol))
    return body


def servo_ctor(hw):
    A, rec = _sleep_recorder(hw)
    mina = sym_float("min_angle", -360.0, 360.0)
    maxa = sym_float("max_angle", -360.0, 360.0)
    minp = sym_float("min_pulse", 0.0, 5000.0)
    maxp = sym_float("max_pulse", 0.0, 5000.0)
    try:
        s = A.Servo(9, min_angle=mina, max_angle=maxa, min_pulse_us=minp, max_pulse_us=maxp)
    except ValueError:
        claim("rejects only degenerate ranges", z3.Or(z3.fpGEQ(zfp(mina), zfp(maxa)), z3.fpGEQ(zfp(minp), zfp(maxp))))
        return
    claim("accepted ranges are proper", z3.And(z3.fpLT(zfp(mina), zfp(maxa)), z3.fpLT(zfp(minp), zfp(maxp))))
    claim("starts at min angle", z3.fpEQ(zfp(s.read()), zfp(mina)))
    claim("starts at min pulse", z3.fpEQ(zfp(s.read_us()), zfp(minp)))


# ------------------------------------------------------------------ DCMotor
def motor_inv(m):
    sp, ap = zfp(m._speed), zfp(m._applied_speed)
    inv = zbool(m._inverted)
    one = fpv(1.0)
    mode = m._mode
    return z3.And(
        z3.fpLEQ(z3.fpAbs(sp), one),
        z3.If(inv, z3.fpEQ(ap, z3.fpNeg(sp)), z3.fpEQ(ap, sp)),
        z3.BoolVal(mode in ("drive", "coast", "brake")),
        z3.BoolVal(mode == "drive") == z3.Not(z3.fpIsZero(ap)),
    )


def mk_motor(hw, mode0):
    A, rec = _sleep_recorder(hw)
    m = A.DCMotor(4, 5, 6)
    inv = sym_bool("pre_inverted")
    if mode0 == "drive":
        sp = sym_float("pre_speed", -1.0, 1.0)
        pysym.eng().assume(z3.Not(z3.fpIsZero(zfp(sp))))
    else:
        sp = 0.0
    m._speed = sp
    m._inverted = inv
    m._applied_speed = -sp if inv else sp
    m._mode = mode0
    return A, rec, m


def _clamped(v):
    f = zfp(v)
    return z3.If(z3.fpGT(f, fpv(1.0)), fpv(1.0), z3.If(z3.fpLT(f, fpv(-1.0)), fpv(-1.0), f))


def motor_set_speed(mode0, kind):
    def body(hw):
        A, rec, m = mk_motor(hw, mode0)
        inv0 = m._inverted
        v = sym_float("v") if kind == "float" else sym_int("v", -5, 5)
        m.set_speed(v)
        claim("invariant", motor_inv(m))
        claim("speed is the clamped request", z3.fpEQ(zfp(m.get_speed()), _clamped(v)))
        claim("inversion unchanged", same_value(m.is_inverted(), inv0))
        claim("idle mode is coast", z3.Implies(z3.fpIsZero(zfp(m.get_applied_speed())), z3.BoolVal(m.get_mode() == "coast")))
        claim("no sleep", len(rec) == 0)
    return body


def motor_backward(mode0):
    def body(hw):
        A, rec, m = mk_motor(hw, mode0)
        v = sym_float("v")
        m.backward(v)
        claim("invariant", motor_inv(m))
        claim("speed is minus the clamped magnitude", z3.fpEQ(zfp(m.get_speed()), z3.fpNeg(z3.fpAbs(_clamped(v)))))
    return body


def motor_stop_coast(mode0, method):
    def body(hw):
        A, rec, m = mk_motor(hw, mode0)
        inv0 = m._inverted
        getattr(m, method)()
        claim("invariant", motor_inv(m))
        claim("speed zero", z3.fpIsZero(zfp(m.get_speed())))
        claim("mode", m.get_mode() == ("brake" if method == "stop" else "coast"))
        claim("inversion unchanged", same_value(m.is_inverted(), inv0))
    return body


def motor_invert(mode0):
    def body(hw):
        A, rec, m = mk_motor(hw, mode0)
        inv0, sp0, ap0 = m._inverted, m._speed, m._applied_speed
        m.invert()
        claim("invariant", motor_inv(m))
        claim("flag flipped", zbool(m.is_inverted()) == z3.Not(zbool(inv0)))
        claim("speed unchanged", same_value(m.get_speed(), sp0))
        claim("idle mode after invert is coast", z3.Implies(z3.fpIsZero(zfp(m.get_applied_speed())),
                                                            z3.BoolVal(m.get_mode() == "coast")))
        m.invert()
        claim("invariant after second invert", motor_inv(m))
        claim("involution: flag", same_value(m.is_inverted(), inv0))
        claim("involution: speed", same_value(m.get_speed(), sp0))
        claim("involution: applied", z3.fpEQ(zfp(m.get_applied_speed()), zfp(ap0)))
    return body


def motor_run_for(mode0):
    def body(hw):
        A, rec, m = mk_motor(hw, mode0)
        sp0, ap0, inv0, mode_before = m._speed, m._applied_speed, m._inverted, m._mode
        d = sym_float("duration", -10.0, 1e6)
        v = sym_float("v")
        try:
            m.run_for(d, v)
        except ValueError:
            claim("failed call leaves speed", same_value(m._speed, sp0))
            claim("failed call leaves applied", same_value(m._applied_speed, ap0))
            claim("failed call leaves mode", m._mode == mode_before)
            claim("failed call does not sleep", len(rec) == 0)
            claim("raises only for negative duration", z3.fpLT(zfp(d), fpv(0.0)))
            return
        claim("invariant", motor_inv(m))
        claim("ends braked", m.get_mode() == "brake")
        claim("ends at zero speed", z3.fpIsZero(zfp(m.get_speed())))
        claim("sleeps exactly once", len(rec) == 1)
        if rec:
            claim("sleeps exactly duration", z3.fpEQ(zfp(rec[0]), zfp(d)))
    return body


def motor_ramp(start, target, inverted):
    """ramp over the real 20 steps; start concrete, target concrete or symbolic (None), duration symbolic."""
    def body(hw):
        A, rec = _sleep_recorder(hw)
        m = A.DCMotor(4, 5, 6)
        inv = sym_bool("pre_inverted") if inverted is None else inverted
        m._inverted = inv
        m._speed = start
        m._applied_speed = -start if inv else start
        m._mode = "drive" if start != 0.0 else "coast"
        sp0, ap0, mode_before = m._speed, m._applied_speed, m._mode
        tgt = sym_float("target", -2.0, 2.0) if target is None else target
        d = sym_float("duration", -5.0, 100000.0)
        seen = []
        orig = m.set_speed

        def spy(v):
            orig(v)
            seen.append(m._speed)
        m.set_speed = spy
        try:
            m.ramp(tgt, d)
        except ValueError:
            claim("failed call leaves speed", same_value(m._speed, sp0))
            claim("failed call leaves applied speed", same_value(m._applied_speed, ap0))
            claim("failed call leaves mode", m._mode == mode_before)
            claim("failed call does not sleep", len(rec) == 0)
            claim("raises only for negative duration", z3.fpLT(zfp(d), fpv(0.0)))
            return
        claim("invariant", motor_inv(m))
        claim("twenty steps", len(seen) == 20)
        ct = _clamped(tgt)
        err = z3.fpAbs(z3.fpSub(RNE, zfp(m.get_speed()), ct))
        claim("ends at the clamped target (to float rounding)", z3.fpLEQ(err, fpv(1e-12)))
        up = z3.fpGEQ(ct, fpv(start))
        mono = []
        prev = fpv(start)
        for x in seen:
            cur = zfp(x)
            mono.append(z3.If(up, z3.fpGEQ(cur, prev), z3.fpLEQ(cur, prev)))
            prev = cur
        claim("monotone steps", z3.And(mono))
        # each sleep is exactly fl(duration/20); 20*fl(d/20) <= d*(1+2^-52) follows from IEEE rounding
        each = pysym.fp_div(zfp(d), fpv(20.0))
        claim("sleeps are duration/20 each", z3.And([z3.fpEQ(zfp(x), each) for x in rec]) if rec else z3.BoolVal(True))
        claim("sleep count", z3.If(z3.fpGT(each, fpv(0.0)), z3.BoolVal(len(rec) == 20), z3.BoolVal(len(rec) == 0)))
    return body


# ------------------------------------------------------------------ registry
def obligations(tier):
    obs = []
    for mth in ("on", "off", "toggle"):
        obs.append((f"Led.{mth}", led_simple(mth), {}))
    for k in ("int", "float"):
        obs.append((f"Led.set_brightness[{k}]", led_set_brightness(k), {}))
    obs.append(("Led.blink", led_blink, {}))
    obs.append(("Led.fade_in", led_fade("fade_in"), {}))
    obs.append(("Led.fade_out", led_fade("fade_out"), {}))
    obs.append(("Led.flash_pattern", led_flash, {"max_paths": 3000}))
    for k in ("int", "mixed"):
        obs.append((f"RGBLed.set_color[{k}]", rgb_set_color(k), {}))
    for mth in ("on", "off"):
        obs.append((f"RGBLed.{mth}", rgb_on_off(mth), {}))
    fades = [(1, "r"), (2, "r")] if tier == "quick" else [(1, "r"), (2, "r"), (3, "r"), (4, "g"), (5, "b"), (1, "rgb"), (2, "rg")]
    for kind in ("float_steps", "bool_steps", "float_duration"):
        obs.append((f"RGBLed.fade[{kind}]", rgb_fade_scalar_kinds(kind), {"timeout_ms": 120000, "budget_s": 300}))
    for steps, symch in fades:
        obs.append((f"RGBLed.fade[steps={steps},symbolic={symch}]", rgb_fade(steps, symch),
                    {"max_paths": 4000, "timeout_ms": 60000}))
    obs.append(("RGBLed.blink", rgb_blink, {}))
    obs.append(("Servo.__init__", servo_ctor, {}))
    for cfg in SERVO_CONFIGS:
        for k in ("float", "grid", "int"):
            obs.append((f"Servo.write[{cfg},{k}]", servo_write(cfg, k), {"timeout_ms": 120000}))
            obs.append((f"Servo.write_us[{cfg},{k}]", servo_write_us(cfg, k), {"timeout_ms": 120000}))
    for mode0 in ("coast", "brake", "drive"):
        for k in ("float", "int"):
            obs.append((f"DCMotor.set_speed[{mode0},{k}]", motor_set_speed(mode0, k), {}))
        obs.append((f"DCMotor.backward[{mode0}]", motor_backward(mode0), {}))
        obs.append((f"DCMotor.stop[{mode0}]", motor_stop_coast(mode0, "stop"), {}))
        obs.append((f"DCMotor.coast[{mode0}]", motor_stop_coast(mode0, "coast"), {}))
        obs.append((f"DCMotor.invert[{mode0}]", motor_invert(mode0), {}))
        obs.append((f"DCMotor.run_for[{mode0}]", motor_run_for(mode0), {}))
    pairs = [(0.0, 1.0), (-1.0, 1.0), (0.5, -0.25), (0.0, 2.5), (1.0, 1.0), (0.3, -7.0)]
    for st, tg in pairs:
        obs.append((f"DCMotor.ramp[start={st},target={tg}]", motor_ramp(st, tg, None),
                    {"max_paths": 600, "timeout_ms": 60000, "max_decisions": 400}))
    if tier == "thorough":
        for st in (0.0, -1.0, 0.5):
            for inv in (False, True):
                obs.append((f"DCMotor.ramp[start={st},target=symbolic,inverted={inv}]", motor_ramp(st, None, inv),
                            {"max_paths": 600, "timeout_ms": 120000, "max_decisions": 400, "budget_s": 1500}))
    return obs


def _work(item):
    oid, body, kw = item
    return run_host_obligation(oid, body, describe=(body.__doc__ or oid), **kw)


def run(tier, seed, only=None):
    t0 = time.time()
    obs = obligations(tier)
    if only:
        obs = [o for o in obs if only in o[0]]
    results = run_obligations(obs, _work)
    return finish(
        "C19", "other", tier, seed, results, t0,
        explanation="Inductive step per host actuator class (Led, RGBLed, Servo, DCMotor): object fields symbolic under "
                    "the representation invariant, one real method executed on CPython with z3 proxies (ints as signed "
                    "64-bit bit-vectors, floats as IEEE binary64), postconditions (invariant re-established, failed-call "
                    "atomicity, sleep totals, linear-map correspondence, monotone steps) checked on every feasible path by "
                    "z3; sat models replayed on stock CPython before being reported.",
        functions_encoded=["Reduino.Actuators.Led.Led.*", "Reduino.Actuators.RGBLed.RGBLed.*",
                           "Reduino.Actuators.Servo.Servo.*", "Reduino.Actuators.DCMotor.DCMotor.*"],
        bounds={"Led.blink times": "<=3", "Led.fade step": "<=0 or >=64 (at most 4 iterations)",
                "Led.flash_pattern length": 3, "RGBLed.fade steps": "1..2 quick / 1..5 thorough (concrete), channels symbolic",
                "RGBLed.blink times": "<=2", "Servo configs": list(SERVO_CONFIGS), "DCMotor.ramp": "quick: concrete (start,target) pairs, symbolic duration and inversion, the real 20 steps; thorough adds a symbolic target", "ints": "|v| <= 2^31", "floats": "finite doubles"},
        assumptions=["sleep() is replaced by a recorder through the package-level indirection the classes use",
                     "pre-states are drawn from the representation invariant of DESIGN.md Appendix A; the constructor "
                     "state satisfies it (checked by the on/off/ctor obligations)",
                     "64-bit signed arithmetic does not overflow (assumed at each +,-,*; inputs bounded)"],
        stubs=["Reduino.Actuators.sleep -> recorder"],
    )


def replay(path):
    import json
    w = json.load(open(path))
    print(json.dumps(w, indent=1))
    return 0
