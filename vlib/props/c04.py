"""C04 - actuator commands: firmware drives pins exactly as the host simulation predicts.

(a) equivalence: one actuator call (literal or run-time arguments) from an arbitrary invariant-satisfying
    device state (Led, RGBLed, DCMotor: shadow globals and host fields havocked from shared symbolic
    variables after setup()) or from the initial state (Servo, two-call sequences); per-pin levels, delays,
    motor direction/duty (within one PWM count) and every getter are compared with the real host classes.
(b) clamp safety on the firmware alone: for arbitrary (out-of-range) run-time arguments no pin ever
    receives a value outside the documented limits.
"""
from __future__ import annotations

import time

import z3

from .. import fwsym, lower, prestate as ps
from ..common import Result, finish, run_obligations
from ..diffscript import ScriptDiff, run_firmware_concrete, f_int64
from ..fwsym import BV
from ._script_common import ASSUMPTIONS, FUNCTIONS

HDR = '''from Reduino import target
target("COM3", upload=False)
from Reduino.Communication import SerialMonitor
from Reduino.Core import analog_read
from Reduino.Utils import sleep
from Reduino.Actuators import Led, RGBLed, Servo, DCMotor
mon = SerialMonitor(9600, "COM3")
'''

LED_GET = "    mon.write(1 if led.get_state() else 0)\n    mon.write(led.get_brightness())\n"
RGB_GET = ""
SERVO_GET = "    mon.write(servo.read())\n    mon.write(servo.read_us())\n"
MOTOR_GET = ("    mon.write(motor.get_speed())\n    mon.write(motor.get_applied_speed())\n"
             "    mon.write(1 if motor.is_inverted() else 0)\n    mon.write(motor.get_mode())\n")

READ = '    v = analog_read("A0")\n    w = analog_read("A1")\n'


def _led(op):
    return HDR + "led = Led(9)\nwhile True:\n" + READ + LED_GET + f"    {op}\n" + LED_GET


def _rgb(op):
    return HDR + "rgb = RGBLed(3, 5, 6)\nwhile True:\n" + READ + f"    {op}\n"


def _servo(decl, ops):
    return HDR + decl + "\nwhile True:\n" + READ + SERVO_GET + "".join(f"    {o}\n" + SERVO_GET for o in ops)


def _motor(ops):
    return HDR + "motor = DCMotor(4, 7, 11)\nwhile True:\n" + READ + MOTOR_GET + "".join(f"    {o}\n" + MOTOR_GET for o in ops)


def equivalence_family(tier):
    fam = []
    led = ps.PreState(ps.LedPre("led"))
    for name, op in [
        ("on", "led.on()"), ("off", "led.off()"), ("toggle", "led.toggle()"),
        ("set_brightness_rt", "led.set_brightness(v // 4)"), ("set_brightness_lit", "led.set_brightness(128)"),
        ("set_brightness_0", "led.set_brightness(0)"), ("set_brightness_255", "led.set_brightness(255)"),
        ("set_brightness_1", "led.set_brightness(1)"),
        ("blink_lit", "led.blink(20, 2)"), ("blink_rt", "led.blink(v, 2)"), ("blink_kw", "led.blink(15, times=3)"),
        ("fade_in", "led.fade_in(64, 5)"), ("fade_in_rt_delay", "led.fade_in(100, w)"), ("fade_out", "led.fade_out(80, 3)"),
        ("fade_in_kw", "led.fade_in(step=128, delay_ms=2)"),
        ("flash_lit", "led.flash_pattern([1, 0, 128], 10)"), ("flash_single", "led.flash_pattern([1], 10)"),
        ("flash_default_delay", "led.flash_pattern([0, 1])"),
    ]:
        fam.append((f"Led.{name}", _led(op), led, 1))
    rgb = ps.PreState(ps.RGBPre("rgb"))
    for name, op in [
        ("set_color_rt", "rgb.set_color(v // 4, w // 4, 7)"), ("set_color_lit", "rgb.set_color(10, 20, 30)"),
        ("on", "rgb.on()"), ("on_args", "rgb.on(1, 2, 3)"), ("off", "rgb.off()"),
        ("fade_2", "rgb.fade(255, 0, 128, 100, 2)"), ("fade_rt", "rgb.fade(v // 4, 10, 0, 90, 2)"), ("fade_3_lit", "rgb.fade(200, 100, 0, 90, 3)"),
        ("fade_zero_duration", "rgb.fade(9, 8, 7, 0, 4)"), ("fade_kw", "rgb.fade(1, 2, 3, duration_ms=50, steps=2)"),
        ("blink_1", "rgb.blink(255, 0, 64, 1, 40)"), ("blink_2_rt", "rgb.blink(v // 4, 0, 0, 2, w)"),
        ("blink_kw", "rgb.blink(5, 6, 7, times=2, delay_ms=30)"), ("blink_defaults", "rgb.blink(5, 6, 7)"),
    ]:
        fam.append((f"RGBLed.{name}", _rgb(op), rgb, 1))
    for name, decl, ops in [
        ("write_rt", "servo = Servo(10)", ["servo.write(v // 6)"]),
        ("write_lit", "servo = Servo(10)", ["servo.write(90)"]),
        ("write_us_rt", "servo = Servo(10)", ["servo.write_us(544 + v)"]),
        ("write_then_us", "servo = Servo(10)", ["servo.write(45)", "servo.write_us(600 + w)"]),
        ("custom_range", "servo = Servo(10, min_angle=10, max_angle=170, min_pulse_us=1000, max_pulse_us=2000)",
         ["servo.write(10 + v // 8)", "servo.write_us(1000 + w // 2)"]),
        ("bounds", "servo = Servo(10)", ["servo.write(0)", "servo.write(180)", "servo.write_us(544)", "servo.write_us(2400)"]),
    ]:
        fam.append((f"Servo.{name}", _servo(decl, ops), None, 1))
    mot = ps.PreState(ps.MotorPre("motor"))
    for name, ops in [
        ("set_speed_rt", ["motor.set_speed(v / 512.0 - 1.0)"]), ("set_speed_lit", ["motor.set_speed(0.4)"]),
        ("set_speed_zero", ["motor.set_speed(0)"]), ("set_speed_full", ["motor.set_speed(-1.0)"]),
        ("backward", ["motor.backward(v / 1024.0)"]), ("backward_default", ["motor.backward()"]),
        ("stop", ["motor.stop()"]), ("coast", ["motor.coast()"]), ("invert", ["motor.invert()"]),
        ("invert_twice", ["motor.invert()", "motor.invert()"]),
        ("run_for", ["motor.run_for(150, 0.5)"]), ("run_for_rt", ["motor.run_for(v, w / 1024.0)"]),
        ("run_for_kw", ["motor.run_for(20, speed=1.0)"]),
        ("stop_invert", ["motor.stop()", "motor.invert()"]),
    ]:
        fam.append((f"DCMotor.{name}", _motor(ops), mot, 1))
    if tier == "thorough":
        fam.append(("DCMotor.ramp", _motor(["motor.ramp(1.0, 100)"]), None, 1))
        fam.append(("DCMotor.ramp_down", _motor(["motor.set_speed(0.5)", "motor.ramp(-1.0, 40)"]), None, 1))
    # the tracked RGB colour has no getter: it is observed through the next operation that depends on it
    for name, op in [("off_then_blink", "rgb.off()\n    rgb.blink(1, 2, 3, 1, 5)"), ("off_then_fade", "rgb.off()\n    rgb.fade(8, 8, 8, 10, 1)"),
                     ("set_then_blink", "rgb.set_color(v // 4, 0, 9)\n    rgb.blink(1, 2, 3, 1, 5)"), ("on_then_blink", "rgb.on()\n    rgb.blink(1, 2, 3, 1, 5)"),
                     ("blink_then_blink", "rgb.blink(9, 9, 9, 1, 5)\n    rgb.blink(1, 2, 3, 1, 5)"),
                     ("fade_then_blink", "rgb.fade(100, 50, 0, 10, 1)\n    rgb.blink(1, 2, 3, 1, 5)")]:
        fam.append((f"RGBLed.{name}", _rgb(op), rgb, 1))
    # every state query stored in a variable first (the variable's inferred type must carry the value)
    fam.append(("getter_vars/Led", HDR + "led = Led(9)\nwhile True:\n" + READ + "    led.set_brightness(v // 4)\n    st = led.get_state()\n"
                "    br = led.get_brightness()\n    mon.write(1 if st else 0)\n    mon.write(br)\n", None, 1))
    fam.append(("getter_vars/Servo", HDR + "servo = Servo(10)\nwhile True:\n" + READ + "    servo.write(v // 6)\n    ang = servo.read()\n"
                "    pul = servo.read_us()\n    mon.write(ang)\n    mon.write(pul)\n    servo.write_us(pul)\n", None, 1))
    fam.append(("getter_vars/Servo_literal", HDR + "servo = Servo(10)\nwhile True:\n" + READ + "    servo.write(50)\n    ang = servo.read()\n"
                "    pul = servo.read_us()\n    mon.write(ang)\n    mon.write(pul)\n    servo.write_us(pul)\n    if pul > 1059.5:\n        mon.write(1)\n", None, 1))
    fam.append(("getter_vars/DCMotor", HDR + "motor = DCMotor(4, 7, 11)\nwhile True:\n" + READ + "    motor.set_speed(v / 512.0 - 1.0)\n"
                "    sp = motor.get_speed()\n    ap = motor.get_applied_speed()\n    inv = motor.is_inverted()\n"
                "    mon.write(sp)\n    mon.write(ap)\n    mon.write(1 if inv else 0)\n", None, 1))
    # histories from the initial state (two passes): invariants really are reached
    fam.append(("history/Led", HDR + "led = Led(9)\nwhile True:\n" + READ + "    led.set_brightness(v // 4)\n    led.toggle()\n" + LED_GET, None, 2))
    fam.append(("history/RGBLed", HDR + "rgb = RGBLed(3, 5, 6)\nwhile True:\n" + READ + "    rgb.fade(v // 4, 0, 0, 20, 2)\n    rgb.blink(1, 2, 3, 1, 5)\n", None, 2))
    fam.append(("history/DCMotor", _motor(["motor.set_speed(v / 512.0 - 1.0)", "motor.invert()", "motor.stop()"]), None, 2))
    fam.append(("history/two_leds", HDR + "l1 = Led(9)\nl2 = Led(10)\nwhile True:\n" + READ + "    l1.set_brightness(v // 4)\n    l2.toggle()\n    l1.toggle()\n", None, 2))
    return fam


# ------------------------------------------------------------------ clamp safety (firmware only)
CLAMP_CASES = [
    ("Led.set_brightness", "led = Led(9)", 'led.set_brightness(v - 300)', "pwm", [9]),
    ("Led.set_brightness_big", "led = Led(9)", 'led.set_brightness(v * 3)', "pwm", [9]),
    ("Led.flash_pattern", "led = Led(9)", 'led.flash_pattern([1, 0, 255], v - 300)', "pwm", [9]),
    ("Led.fade_in_step", "led = Led(9)", 'led.fade_in(v - 300, 1)', "pwm", [9]),
    ("RGBLed.set_color", "rgb = RGBLed(3, 5, 6)", 'rgb.set_color(v - 300, w * 2, 256)', "pwm", [3, 5, 6]),
    ("RGBLed.fade", "rgb = RGBLed(3, 5, 6)", 'rgb.fade(v - 300, w, 999, 10, 2)', "pwm", [3, 5, 6]),
    ("RGBLed.blink", "rgb = RGBLed(3, 5, 6)", 'rgb.blink(v - 300, w * 2, -1, 1, 5)', "pwm", [3, 5, 6]),
    ("Servo.write", "servo = Servo(10)", 'servo.write(v - 300)', "servo", (0, 180, 544, 2400)),
    ("Servo.write_us", "servo = Servo(10)", 'servo.write_us(v * 4)', "servo", (0, 180, 544, 2400)),
    ("Servo.custom", "servo = Servo(10, min_angle=10, max_angle=170, min_pulse_us=1000, max_pulse_us=2000)",
     'servo.write(v - 300)\n    servo.write_us(w * 4)', "servo", (10, 170, 1000, 2000)),
    ("DCMotor.set_speed", "motor = DCMotor(4, 7, 11)", 'motor.set_speed(v / 100.0 - 5.0)', "motor", [11]),
    ("DCMotor.backward", "motor = DCMotor(4, 7, 11)", 'motor.backward(v / 100.0 - 5.0)', "motor", [11]),
    ("DCMotor.run_for", "motor = DCMotor(4, 7, 11)", 'motor.run_for(5, v / 100.0 - 5.0)', "motor", [11]),
]


def clamp_obligation(item) -> Result:
    oid, decl, op, kind, spec = item
    src = HDR + decl + "\nwhile True:\n" + READ + "    " + op + "\n"
    res = Result(oid, "holds")
    res.sample = {"obligation": oid, "script": src, "limit": str(spec)}
    try:
        cpp = lower.transpile(src)
    except (ValueError, SyntaxError) as e:
        res.detail = "rejected: " + str(e)[:200]
        res.nontrivial = False
        return res
    try:
        mod = lower.lower_cpp(cpp, tag="c")
    except lower.CompileError as e:
        res.verdict = "inconclusive"
        res.detail = "emitted C++ does not compile: " + e.output[:200]
        return res
    ex = fwsym.Executor(mod, max_block_visits=300, max_paths=400, solver_timeout_ms=30000)
    st = ex.init_state()
    entries = [(c, []) for c in mod.ctors] + [("_Z5setupv", []), ("_Z4loopv", [])]
    state = {"cex": None, "n": 0, "inconc": [], "events": 0}

    def bad_conditions(events):
        conds = []
        for ev in events:
            if kind in ("pwm", "motor") and ev[0] == "analogWrite" and ev[1].concrete and ev[1].v in spec:
                v = ev[2]
                state["events"] += 1
                if v.concrete:
                    if not 0 <= v.signed() <= 255:
                        conds.append(z3.BoolVal(True))
                else:
                    conds.append(z3.Or(v.v < 0, v.v > 255))
            if kind == "servo" and ev[0] in ("servo_write", "servo_us"):
                lo, hi = (spec[0], spec[1]) if ev[0] == "servo_write" else (spec[2], spec[3])
                v = ev[2]
                state["events"] += 1
                if v.concrete:
                    if not lo <= v.signed() <= hi:
                        conds.append(z3.BoolVal(True))
                else:
                    conds.append(z3.Or(v.v < lo, v.v > hi))
        return conds

    def on_path(pr):
        state["n"] += 1
        if state["cex"] is not None:
            return
        if pr.status != "ok":
            if not pr.status.startswith("ended:infeasible"):
                state["inconc"].append(pr.status)
            return
        for c in bad_conditions(pr.events):
            r, m = ex.model_for(c, timeout_ms=60000)
            if r == "sat":
                state["cex"] = m
                return
            if r == "unknown":
                state["inconc"].append("unknown: clamp query")
    ex.explore(st, entries, on_path)
    res.queries, res.solver_s, res.paths = ex.stats["queries"], ex.stats["solver_s"], state["n"]
    if state["cex"] is not None:
        fev, err = run_firmware_concrete(cpp, 1, state["cex"])
        if fev is None:
            res.verdict, res.detail = "harness-error", "replay: " + err
            return res
        concrete_bad = [c for c in bad_conditions(fev)]
        if concrete_bad:
            res.verdict = "violation"
            res.detail = f"an unclamped value reaches the pin for inputs {state['cex']}"
            res.witness = {"script": src, "inputs": state["cex"], "class": "unclamped"}
        else:
            res.verdict, res.detail = "harness-error", f"clamp counterexample did not replay: {state['cex']}"
        return res
    if state["events"] == 0:
        res.verdict, res.detail = "inconclusive", "vacuous: no pin command observed"
    elif state["inconc"]:
        res.verdict, res.detail = "inconclusive", "; ".join(sorted(set(state["inconc"]))[:3])
    return res


def _work(item):
    if item[0] == "eq":
        _, oid, src, pre, passes, kw = item
        return ScriptDiff(oid, src, passes=passes, prestate=pre, **kw).run()
    return clamp_obligation(item[1:])


def run(tier, seed, only=None):
    t0 = time.time()
    items = []
    kw = {"budget_s": 300 if tier == "quick" else 1500, "max_block_visits": 300, "claim_timeout_ms": 120000}
    for oid, src, pre, passes in equivalence_family(tier):
        items.append(("eq", "step/" + oid, src, pre, passes, kw))
    # the same commands in every block context (if/elif/else arms, nested loops, helper functions, try, prologue)
    from .. import skeletons
    for oid, src in skeletons.ctx_family(tier, table=skeletons.CTX_DEV_STMTS, header=skeletons.DEV_HEADER):
        items.append(("eq", "placement/" + oid[4:], src, None, 2, kw))
    for c in CLAMP_CASES:
        items.append(("clamp", "clamp/" + c[0]) + tuple(c[1:]))
    if only:
        items = [i for i in items if only in i[1]]
    results = run_obligations(items, _work)
    return finish(
        "C04", "other", tier, seed, results, t0,
        explanation="Inductive step per actuator method: after setup() the firmware's shadow globals and the real host "
                    "object's fields are set from the same symbolic variables under the representation invariant (Led, "
                    "RGBLed, DCMotor; Servo from its initial state), one call is made with literal or run-time arguments, and "
                    "z3/cvc5 decide whether the per-pin level / delay / motor command traces or any getter value can differ "
                    "from what the real host class computes (IR of the emitted C++ vs CPython with proxies).  Clamp safety: on "
                    "the firmware alone, with arbitrary out-of-range run-time arguments, no analogWrite/Servo command outside "
                    "the documented limits is feasible.  Two-pass histories from the initial state check the invariants are "
                    "the reachable ones.  placement/*: six actuator commands placed in each of 19 block contexts (if/elif/"
                    "else arms, nested loops, helper functions, try bodies, the prologue), two passes from the initial state.",
        functions_encoded=FUNCTIONS + ["emitter templates for Led*/RGBLed*/Servo*/DCMotor* nodes (as lowered IR)",
                                       "Reduino.Actuators.Led/RGBLed/Servo/DCMotor methods"],
        bounds={"blink times": "<=3", "led fade step": ">=64", "rgb fade steps": "<=4", "flash_pattern length": "<=3",
                "motor pre-state speed": "k/64, k in -64..64", "ramp": "thorough tier only (20 real steps)",
                "passes": "1 (inductive step) / 2 (histories)"},
        assumptions=ASSUMPTIONS + ["motor duty compared within one PWM count; device floats (binary32) vs host doubles within "
                                   "rel 1e-4/abs 1e-4; a redundant write of the level a pin already has is not an event"],
        stubs=["shadow globals / host fields havocked under the invariants of DESIGN.md Appendix A"],
    )


def replay(path):
    import json
    print(json.dumps(json.load(open(path)), indent=1)[:4000])
    return 0
