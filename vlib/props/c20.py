"""C20 - host sensor, Core-pin, timing and serial helpers are faithful small models.

The real functions run on CPython with z3 proxies (pysym); laws are claims decided
on every feasible path; counterexamples are replayed on stock CPython.
"""
from __future__ import annotations

import time

import z3

from .. import pysym
from ..common import finish, run_obligations
from ..hostcheck import claim, run_host_obligation
from ..pysym import F64, same_value, sym_bool, sym_float, sym_int, sym_real, zbool, zfp, zint, zreal

RNE = z3.RNE()


def fpv(x):
    return z3.FPVal(x, F64)


PINS = [7, "7", 8]


def _norm(p):
    return int(p) if isinstance(p, str) and p.isdigit() else p


# ------------------------------------------------------------------ Core as a memory
def core_history(length, float_values, fixed=()):
    """History of `length` operations over pins {7,"7",8}: kinds/pins symbolic except for the concrete
    prefix `fixed` (used only to split the work over cores); written values always symbolic."""
    def body(hw):
        C = hw.load("Reduino.Core")
        # reference model (normalised pin -> z3 term / flags)
        dval = {}
        aval = {}
        mode = {}
        ever_pullup = set()
        for i in range(length):
            if i < len(fixed):
                op, pi = fixed[i]
            else:
                op = sym_int(f"op{i}", 0, 2)
                pi = sym_int(f"pin{i}", 0, len(PINS) - 1)
            pin = PINS[pi.__index__() if pysym.is_sym(pi) else pi]
            key = _norm(pin)
            if op == 0:
                pullup = sym_bool(f"pullup{i}")
                if pullup:
                    C.pin_mode(pin, C.INPUT_PULLUP)
                    mode[key] = "pullup"
                    ever_pullup.add(key)
                else:
                    C.pin_mode(pin, C.OUTPUT)
                    mode[key] = "other"
            elif op == 1:
                v = sym_int(f"dv{i}", -3, 300)
                C.digital_write(pin, v)
                dval[key] = z3.If(zint(v) != 0, z3.BitVecVal(1, 64), z3.BitVecVal(0, 64))
            else:
                if float_values:
                    v = sym_float(f"av{i}", -1000.0, 1000.0)
                    r = z3.fpRoundToIntegral(RNE, zfp(v))
                    iv = z3.fpToSBV(z3.RTZ(), r, z3.BitVecSort(64))
                else:
                    v = sym_int(f"av{i}", -1000, 1000)
                    iv = zint(v)
                C.analog_write(pin, v)
                aval[key] = z3.If(iv < 0, z3.BitVecVal(0, 64), z3.If(iv > 255, z3.BitVecVal(255, 64), iv))
        for pin in PINS:
            key = _norm(pin)
            d = C.digital_read(pin)
            a = C.analog_read(pin)
            if key in dval:
                claim(f"digital_read({pin!r}) returns last written level", zint(d) == dval[key])
            elif mode.get(key) == "pullup":
                claim(f"unwritten INPUT_PULLUP pin {pin!r} reads HIGH", zint(d) == 1)
            elif key not in ever_pullup:
                claim(f"unwritten pin {pin!r} reads LOW", zint(d) == 0)
            if key in aval:
                claim(f"analog_read({pin!r}) returns last written value clamped to 0..255", zint(a) == aval[key])
            else:
                claim(f"unwritten pin {pin!r} analog reads 0", zint(a) == 0)
        claim("7 and '7' are the same pin", z3.And(same_value(C.digital_read(7), C.digital_read("7")),
                                                   same_value(C.analog_read(7), C.analog_read("7"))))
    return body


def core_frame(hw):
    """A write to one pin never changes what another pin reads (arbitrary values, all pin pairs)."""
    C = hw.load("Reduino.Core")
    pins = [7, "8", "A0"]
    for p in pins:
        C.digital_write(p, sym_bool(f"init_d_{p}"))
        C.analog_write(p, 11 * (pins.index(p) + 1))
    before = {p: (C.digital_read(p), C.analog_read(p)) for p in pins}
    wi = sym_int("target", 0, len(pins) - 1)
    target = pins[wi.__index__() if pysym.is_sym(wi) else wi]
    which = sym_int("kind", 0, 2)
    if which == 0:
        C.digital_write(target, sym_int("v", -5, 5))
    elif which == 1:
        C.analog_write(target, sym_int("v", -500, 500))
    else:
        C.pin_mode(target, C.INPUT_PULLUP)
    for p in pins:
        if _norm(p) == _norm(target):
            continue
        claim(f"write to {target!r} leaves digital {p!r}", same_value(C.digital_read(p), before[p][0]))
        claim(f"write to {target!r} leaves analog {p!r}", same_value(C.analog_read(p), before[p][1]))


# ------------------------------------------------------------------ Utils
def utils_map_real(hw):
    """Utils.map is the affine map through (from_low,to_low),(from_high,to_high) - exact reals."""
    U = hw.load("Reduino.Utils")
    v, fl, fh, tl, th = (sym_real(n) for n in ("value", "from_low", "from_high", "to_low", "to_high"))
    Z = zreal
    try:
        r = U.map(v, fl, fh, tl, th)
    except ValueError:
        claim("rejects only a zero-width source range", Z(fl) == Z(fh))
        return
    claim("accepted only for a non-degenerate range", Z(fl) != Z(fh))
    claim("affine law", (Z(r) - Z(tl)) * (Z(fh) - Z(fl)) == (Z(v) - Z(fl)) * (Z(th) - Z(tl)))
    r_lo = U.map(fl, fl, fh, tl, th)
    r_hi = U.map(fh, fl, fh, tl, th)
    claim("maps from_low to to_low", Z(r_lo) == Z(tl))
    claim("maps from_high to to_high", Z(r_hi) == Z(th))


def utils_map_fp(hw):
    """IEEE side of Utils.map: zero-span rejection and the exact low endpoint (finite doubles)."""
    U = hw.load("Reduino.Utils")
    fl, fh, tl, th = (sym_float(n, -1e6, 1e6) for n in ("from_low", "from_high", "to_low", "to_high"))
    try:
        r = U.map(fl, fl, fh, tl, th)
    except ValueError:
        claim("rejects only a zero-width source range", z3.fpEQ(zfp(fl), zfp(fh)))
        return
    claim("accepted only for a non-degenerate range", z3.Not(z3.fpEQ(zfp(fl), zfp(fh))))
    claim("maps from_low to to_low exactly", z3.fpEQ(zfp(r), zfp(tl)))


def utils_map_int(hw):
    """map with integer arguments (true division): zero-span rejection, endpoints."""
    U = hw.load("Reduino.Utils")
    fl, fh = sym_int("from_low", -2000, 2000), sym_int("from_high", -2000, 2000)
    tl, th = sym_int("to_low", -2000, 2000), sym_int("to_high", -2000, 2000)
    try:
        r = U.map(fl, fl, fh, tl, th)
    except ValueError:
        claim("rejects only a zero-width source range", zint(fl) == zint(fh))
        return
    claim("accepted only for a non-degenerate range", zint(fl) != zint(fh))
    claim("maps from_low to to_low exactly", z3.fpEQ(zfp(r), zfp(tl)))


def utils_sleep(kind):
    def body(hw):
        U = hw.load("Reduino.Utils")
        calls = []
        d = sym_int("duration", -(1 << 31), 1 << 31) if kind == "int" else sym_float("duration")
        try:
            U.sleep(d, sleep_func=lambda s: calls.append(s))
        except ValueError:
            claim("rejects only negatives", (zint(d) < 0) if kind == "int" else z3.fpLT(zfp(d), fpv(0.0)))
            claim("rejected call does not wait", len(calls) == 0)
            return
        claim("accepted only non-negative", (zint(d) >= 0) if kind == "int" else z3.fpGEQ(zfp(d), fpv(0.0)))
        claim("waits exactly once", len(calls) == 1)
        if calls:
            claim("waits duration/1000 seconds", z3.fpEQ(zfp(calls[0]), z3.fpDiv(RNE, zfp(d), fpv(1000.0))))
    return body


def utils_sleep_default(hw):
    """Without sleep_func the module's time.sleep is called exactly once."""
    U = hw.load("Reduino.Utils")
    d = sym_int("duration", 0, 1 << 20)
    n0 = len(pysym.eng().events)
    U.sleep(d)
    ev = [e for e in pysym.eng().events[n0:] if e[0] == "time.sleep"]
    claim("time.sleep called exactly once", len(ev) == 1)
    if ev:
        claim("with duration/1000", z3.fpEQ(zfp(ev[0][1]), z3.fpDiv(RNE, zfp(d), fpv(1000.0))))


# ------------------------------------------------------------------ sensors
def button_edges(n):
    def body(hw):
        S = hw.load("Reduino.Sensors")
        sig = [sym_bool(f"s{i}") for i in range(n)]
        it = iter(sig)
        clicks = []
        b = S.Button(2, on_click=lambda: clicks.append(1), state_provider=lambda: next(it))
        rets = [b.is_pressed() for _ in range(n)]
        prev = z3.BoolVal(False)
        edges = z3.BitVecVal(0, 64)
        for i, s in enumerate(sig):
            sz = zbool(s)
            edges = edges + z3.If(z3.And(sz, z3.Not(prev)), z3.BitVecVal(1, 64), z3.BitVecVal(0, 64))
            claim(f"is_pressed()#{i} returns the sample", zint(rets[i]) == z3.If(sz, z3.BitVecVal(1, 64), z3.BitVecVal(0, 64)))
            prev = sz
        claim("on_click fires once per rising edge", edges == len(clicks))
    return body


def button_edges_levels(n):
    """The provider returns arbitrary integer levels 0..3 (any non-zero level = pressed): one click per rising edge of
    the pressed/released signal - a change between two non-zero levels is not an edge."""
    def body(hw):
        S = hw.load("Reduino.Sensors")
        sig = [sym_int(f"level{i}", 0, 3) for i in range(n)]
        taken = []

        def provider():
            taken.append(1)
            return sig[len(taken) - 1] if len(taken) <= n else 0
        clicks = []
        b = S.Button(2, on_click=lambda: clicks.append(1), state_provider=provider)
        rets = [b.is_pressed() for _ in range(n)]
        claim("one sample per call", len(taken) == n)
        prev = z3.BoolVal(False)
        edges = z3.BitVecVal(0, 64)
        for i, s in enumerate(sig):
            sz = zint(s) != 0
            edges = edges + z3.If(z3.And(sz, z3.Not(prev)), z3.BitVecVal(1, 64), z3.BitVecVal(0, 64))
            claim(f"is_pressed()#{i} returns 1/0 for the level", zint(rets[i]) == z3.If(sz, z3.BitVecVal(1, 64), z3.BitVecVal(0, 64)))
            prev = sz
        claim("on_click fires once per rising edge of pressed/released", edges == len(clicks))
    return body


def button_set_pressed(hw):
    S = hw.load("Reduino.Sensors")
    clicks = []
    b = S.Button(2, on_click=lambda: clicks.append(1))
    claim("defaults to not pressed", zint(b.is_pressed()) == 0)
    s1, s2 = sym_bool("s1"), sym_bool("s2")
    b.set_pressed(s1)
    r1 = b.is_pressed()
    b.set_pressed(s2)
    r2 = b.is_pressed()
    z1, z2 = zbool(s1), zbool(s2)
    one, zero = z3.BitVecVal(1, 64), z3.BitVecVal(0, 64)
    claim("returns the level set", z3.And(zint(r1) == z3.If(z1, one, zero), zint(r2) == z3.If(z2, one, zero)))
    want = z3.If(z1, one, zero) + z3.If(z3.And(z2, z3.Not(z1)), one, zero)
    claim("click count equals rising edges", want == len(clicks))


def pot_read(hw):
    S = hw.load("Reduino.Sensors")
    v = sym_int("value", -(1 << 31), 1 << 31)
    p = S.Potentiometer("A0", value_provider=lambda: v)
    try:
        r = p.read()
    except ValueError:
        claim("rejects only values outside 0..1023", z3.Or(zint(v) < 0, zint(v) > 1023))
        return
    claim("returns the provider's value", zint(r) == zint(v))
    claim("accepted only within 0..1023", z3.And(zint(v) >= 0, zint(v) <= 1023))


def pot_default(hw):
    S = hw.load("Reduino.Sensors")
    claim("without provider reads 0", zint(S.Potentiometer("A3").read()) == 0)


def ultra_measure(hw):
    S = hw.load("Reduino.Sensors")
    v = sym_float("distance")
    u = S.Ultrasonic(7, 8, distance_provider=lambda: v)
    try:
        r = u.measure_distance()
    except ValueError:
        claim("rejects only negative distances", z3.fpLT(zfp(v), fpv(0.0)))
        return
    claim("returns the provider's value", z3.fpEQ(zfp(r), zfp(v)))
    claim("accepted only non-negative", z3.fpGEQ(zfp(v), fpv(0.0)))


def ultra_measure_with_default(hw):
    """provider value wins over any default distance (including a provider reading of exactly 0)."""
    S = hw.load("Reduino.Sensors")
    v = sym_float("distance", -5.0, 1000.0)
    d = sym_float("default", -5.0, 1000.0)
    u = S.Ultrasonic(7, 8, distance_provider=lambda: v, default_distance=d)
    try:
        r = u.measure_distance()
    except ValueError:
        claim("rejects only negative provider distances", z3.fpLT(zfp(v), fpv(0.0)))
        return
    claim("returns the provider's value", z3.fpEQ(zfp(r), zfp(v)))


def ultra_int_provider(hw):
    S = hw.load("Reduino.Sensors")
    v = sym_int("distance", -5, 1000)
    u = S.Ultrasonic(7, 8, distance_provider=lambda: v, default_distance=400.0)
    try:
        r = u.measure_distance()
    except ValueError:
        claim("rejects only negative provider distances", zint(v) < 0)
        return
    claim("returns the provider's value", pysym.same_value(r, v))


def ultra_default(hw):
    S = hw.load("Reduino.Sensors")
    d = sym_float("default", -10.0, 1000.0)
    u = S.Ultrasonic(7, 8, default_distance=d)
    try:
        r = u.measure_distance()
    except ValueError:
        claim("rejects only negative distances", z3.fpLT(zfp(d), fpv(0.0)))
        return
    claim("falls back to the default distance", z3.fpEQ(zfp(r), zfp(d)))


# ------------------------------------------------------------------ serial
class _FakeSerialPort:
    def __init__(self, log, **kw):
        self.log = log
        self.kw = kw
        self.is_open = True

    def write(self, payload):
        self.log.append(payload)

    def close(self):
        self.is_open = False


def serial_write(kind):
    def body(hw):
        Cm = hw.load("Reduino.Communication")
        log = []
        Cm.serial = type("backend", (), {"Serial": staticmethod(lambda **kw: _FakeSerialPort(log, **kw))})
        mon = Cm.SerialMonitor(9600, "COM3")
        e = pysym.eng()
        if kind == "int":
            v = sym_int("value", -(1 << 31), 1 << 31)
        elif kind == "float":
            v = sym_float("value")
        elif kind == "bool":
            v = sym_bool("value")
        else:
            v = "hello #1"
        ret = mon.write(v)
        claim("exactly one payload sent", len(log) == 1)
        if len(log) != 1:
            return
        sent = log[0].decode("utf-8")
        if isinstance(e, pysym.ConcreteEngine):
            claim("returns str(value)", ret == str(v))
            claim("sends str(value)+newline", sent == str(v) + "\n")
            return
        pieces_ret = e.split_text(ret)
        pieces_sent = e.split_text(sent)
        claim("payload is the returned text plus newline", pieces_sent == pieces_ret + [("c", 10)])
        if kind == "int":
            ok = len(pieces_ret) == 1 and pieces_ret[0][0] == "int"
            claim("returned text renders the value", (pieces_ret[0][1] == zint(v)) if ok else z3.BoolVal(False))
        elif kind == "float":
            ok = len(pieces_ret) == 1 and pieces_ret[0][0] == "flt"
            claim("returned text renders the value", pysym.same_value(pysym.SymFloat(pieces_ret[0][1]), v) if ok
                  else z3.BoolVal(False))
        elif kind == "bool":
            txt = "".join(chr(c[1]) for c in pieces_ret)
            claim("returned text is True/False", z3.If(zbool(v), z3.BoolVal(txt == "True"), z3.BoolVal(txt == "False")))
        else:
            claim("returned text is the string", "".join(chr(c[1]) for c in pieces_ret) == v)
    return body


def serial_unconnected(hw):
    Cm = hw.load("Reduino.Communication")
    mon = Cm.SerialMonitor(115200)
    v = sym_int("value", -(1 << 31), 1 << 31)
    ret = mon.write(v)
    e = pysym.eng()
    if isinstance(e, pysym.ConcreteEngine):
        claim("returns str(value) without a connection", ret == str(v))
        return
    p = e.split_text(ret)
    claim("returns str(value) without a connection", (p[0][1] == zint(v)) if len(p) == 1 else z3.BoolVal(False))


def serial_baud(hw):
    Cm = hw.load("Reduino.Communication")
    b = sym_int("baud", -(1 << 31), 1 << 31)
    try:
        mon = Cm.SerialMonitor(b)
    except ValueError:
        claim("rejects only non-positive baud", zint(b) <= 0)
        return
    claim("accepts positive baud", zint(b) > 0)
    claim("stores it", zint(mon.baud_rate) == zint(b))


def obligations(tier):
    obs = []
    L = 2 if tier == "quick" else 3
    for op0 in range(3):
        for p0 in range(len(PINS)):
            fx = ((op0, p0),)
            obs.append((f"Core.history[len={L},int,first=({op0},{p0})]", core_history(L, False, fx),
                        {"max_paths": 20000, "max_decisions": 100, "budget_s": 900}))
            if op0 == 2:
                obs.append((f"Core.history[len=2,float,first=({op0},{p0})]", core_history(2, True, fx),
                            {"max_paths": 20000, "max_decisions": 100, "budget_s": 900}))
    obs.append(("Core.history[len=2,float,first=symbolic-non-analog]", core_history(2, True, ()),
                {"max_paths": 20000, "max_decisions": 100, "budget_s": 900}))
    obs.append(("Core.frame", core_frame, {"max_paths": 2000}))
    obs.append(("Utils.map[real]", utils_map_real, {}))
    obs.append(("Utils.map[ieee]", utils_map_fp, {"timeout_ms": 120000}))
    obs.append(("Utils.map[int]", utils_map_int, {"timeout_ms": 120000}))
    obs.append(("Utils.sleep[int]", utils_sleep("int"), {}))
    obs.append(("Utils.sleep[float]", utils_sleep("float"), {}))
    obs.append(("Utils.sleep[time.sleep]", utils_sleep_default, {}))
    obs.append((f"Button.edges[n={4 if tier == 'quick' else 6}]", button_edges(4 if tier == "quick" else 6), {"max_paths": 5000}))
    obs.append((f"Button.edges_levels[n={3 if tier == 'quick' else 5}]", button_edges_levels(3 if tier == "quick" else 5), {"max_paths": 5000}))
    obs.append(("Button.set_pressed", button_set_pressed, {}))
    obs.append(("Potentiometer.read", pot_read, {}))
    obs.append(("Potentiometer.default", pot_default, {}))
    obs.append(("Ultrasonic.measure_distance", ultra_measure, {}))
    obs.append(("Ultrasonic.default_distance", ultra_default, {}))
    obs.append(("Ultrasonic.provider_vs_default", ultra_measure_with_default, {}))
    obs.append(("Ultrasonic.int_provider", ultra_int_provider, {}))
    for k in ("int", "float", "bool", "str"):
        obs.append((f"SerialMonitor.write[{k}]", serial_write(k), {}))
    obs.append(("SerialMonitor.write[symbolic text]", "serial_text_lemma", {"tier": tier}))
    obs.append(("SerialMonitor.write[unconnected]", serial_unconnected, {}))
    obs.append(("SerialMonitor.baud", serial_baud, {}))
    return obs


def serial_text_lemma(tier):
    """CrossHair (z3): the real SerialMonitor.write with a recording backend, for symbolic texts and newlines."""
    import os
    from ..crosshair_run import lemma_result
    from ..lower import VERIF
    n = 2 if tier == "quick" else 3
    return lemma_result(
        "SerialMonitor.write[symbolic text]", os.path.join(VERIF, "vlib", "ch", "serial_lemma.py"),
        "write_sends_text_plus_newline", {"MAXLEN": n}, 240 if tier == "quick" else 1500,
        f"text: any string of <= {n} characters over the alphabet {{'a', LF, CR}}, passed as str or through an object's "
        "__str__; newline: any string of <= 2 characters over the same alphabet",
        lambda a: (f"SerialMonitor(newline={a[1]!r}).write({a[0]!r}{' via __str__' if a[2] else ''}) does not send exactly "
                   "str(value)+newline / return str(value)"), "serial-text")


def _work(item):
    oid, body, kw = item
    if body == "serial_text_lemma":
        return serial_text_lemma(kw["tier"])
    return run_host_obligation(oid, body, describe=(body.__doc__ or oid), **kw)


def run(tier, seed, only=None):
    t0 = time.time()
    obs = obligations(tier)
    if only:
        obs = [o for o in obs if only in o[0]]
    results = run_obligations(obs, _work)
    return finish(
        "C20", "other", tier, seed, results, t0,
        explanation="Algebraic laws of the host helper models decided by z3 over the real code run with proxies: Core pins "
                    "as a memory over symbolic operation histories (op kind, pin, value all symbolic; reference model is a "
                    "last-write map), frame law, Utils.map as the exact affine map (z3 reals for the algebraic law, IEEE "
                    "doubles for rejection/endpoints), sleep waits exactly once, Button edge counting over symbolic signals, "
                    "sensor provider pass-through/range rejection, SerialMonitor payload = str(value)+newline.",
        functions_encoded=["Reduino.Core.*", "Reduino.Utils.sleep", "Reduino.Utils.map", "Reduino.Sensors.Button.Button.*",
                           "Reduino.Sensors.Potentiometer.Potentiometer.read", "Reduino.Sensors.Ultrasonic.*",
                           "Reduino.Communication.SerialMonitor.SerialMonitor.__init__/write"],
        bounds={"SerialMonitor text (CrossHair)": "<= 2 (quick) / 3 chars over {'a', LF, CR}; newline <= 2 chars",
                "Core history length": "2 (quick) / 3,4 (thorough)", "pins": "{7,'7',8} (+ 'A0','9' in the frame law)",
                "Button signal length": "4 / 6", "ints": "|v|<=2^31", "floats": "finite doubles",
                "Utils.map affine law": "exact real arithmetic (IEEE rounding outside the claim)"},
        assumptions=["pyserial is replaced by a fake backend object recording write() payloads",
                     "time.sleep is replaced by a recorder", "rendered numbers are opaque tokens: str(v) is compared by value, "
                     "digit formatting is CPython's and not re-verified"],
        stubs=["serial backend", "time.sleep", "sensor providers = symbolic values",
               "math -> Python re-statement of isclose/isinf/isnan/floor/ceil/trunc over the proxies (stock math at replay)"],
    )


def replay(path):
    import json
    print(json.dumps(json.load(open(path)), indent=1))
    return 0
