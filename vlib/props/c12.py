"""C12 - target(): validate first, transpile faithfully, upload only on request.

The real target(), validate_platform_board(), ensure_pio(), write_project() and compile_upload() run on
CPython (pysym) with every effect replaced by a recording stub whose failure is a symbolic boolean: the
fault schedule, `upload`, and the (platform, board) class are all chosen by the solver; each feasible
schedule is one path, and the claims are evaluated on its effect log.
"""
from __future__ import annotations

import time
import types

import z3

from .. import pysym
from ..common import finish, run_obligations
from ..hostcheck import claim, run_host_obligation
from ..pysym import sym_bool, sym_int

SCRIPTS = {
    "plain": 'from Reduino import target\ntarget("COM3")\nfrom Reduino.Actuators import Led\nled = Led(13)\nwhile True:\n    led.toggle()\n',
    "servo_lcd": ('from Reduino import target\ntarget("COM3")\nfrom Reduino.Actuators import Servo\nfrom Reduino.Displays import LCD\n'
                  's = Servo(9)\nlcd = LCD(i2c_addr=0x27)\npar = LCD(rs=12, en=11, d4=5, d5=4, d6=3, d7=2)\nwhile True:\n    s.write(10)\n'),
    "invalid": 'from Reduino import target\ntarget("COM3")\nwhile True:\n    break\n',
}
EXPECTED_LIBS = {"plain": [], "servo_lcd": ["Servo", "LiquidCrystal", "LiquidCrystal_I2C"], "invalid": []}
PAIRS = [("atmelavr", "uno", True), ("atmelmegaavr", "nano_every", True), ("atmelavr", "nano_every", False),
         ("atmelmegaavr", "uno", False), ("bogus", "uno", False), ("atmelavr", "bogus_board", False),
         ("AtmelAVR", "uno", False), ("atmelavr ", "uno", False)]


class Fault(Exception):
    pass


def make_world(log, faults, script_text):
    """Fake sys/subprocess/tempfile/pathlib: every effect is logged; failure = the fault's symbolic bool."""
    def fails(name):
        return bool(faults[name])          # truth test of a SymBool = solver decision (fork)

    class CalledProcessError(Exception):
        pass

    def run(cmd, **kw):
        cmd = tuple(cmd)
        log.append(("subprocess", cmd, str(kw.get("cwd", ""))))
        key = {("pio", "--version"): "pio_version", ("pio", "run"): "pio_build",
               ("pio", "run", "-t", "upload"): "pio_upload"}.get(cmd)
        if key is None:
            log.append(("unexpected-command", cmd))
            return types.SimpleNamespace(returncode=0)
        if fails(key):
            if kw.get("check"):
                raise CalledProcessError(f"{cmd} failed")
            return types.SimpleNamespace(returncode=1)
        return types.SimpleNamespace(returncode=0)
    fake_subprocess = types.SimpleNamespace(run=run, CalledProcessError=CalledProcessError, DEVNULL=-3, PIPE=-1)

    class FakePath:
        def __init__(self, *parts):
            self.s = "/".join(str(p.s if isinstance(p, FakePath) else p) for p in parts)

        def __truediv__(self, o):
            return FakePath(self.s, o)

        def __str__(self):
            return self.s

        def __fspath__(self):
            return self.s

        def read_text(self, encoding=None):
            log.append(("read", self.s))
            if fails("read_main"):
                raise OSError("cannot read main file")
            return script_text

        def mkdir(self, parents=False, exist_ok=False):
            log.append(("mkdir", self.s))
            if fails("mkdir"):
                raise OSError("mkdir failed")

        def write_text(self, data, encoding=None):
            log.append(("write", self.s, data))
            which = "write_main" if self.s.endswith("main.cpp") else "write_ini"
            if fails(which):
                raise OSError("write failed")
            return len(data)
    fake_pathlib = types.SimpleNamespace(Path=FakePath)

    def mkdtemp(prefix=""):
        log.append(("mkdtemp", prefix))
        if fails("mkdtemp"):
            raise OSError("mkdtemp failed")
        return "/TMP/" + prefix + "x"
    fake_tempfile = types.SimpleNamespace(mkdtemp=mkdtemp)
    main_mod = types.SimpleNamespace(__file__="/USER/sketch.py")
    fake_sys = types.SimpleNamespace(modules={"__main__": main_mod}, stderr=types.SimpleNamespace(write=lambda *a: None, flush=lambda: None),
                                     argv=[], path=[], version_info=__import__("sys").version_info, platform="linux")
    return {"subprocess": fake_subprocess, "pathlib": fake_pathlib, "tempfile": fake_tempfile, "sys": fake_sys}, CalledProcessError


FAULTS = ("pio_version", "read_main", "mkdtemp", "mkdir", "write_main", "write_ini", "pio_build", "pio_upload")


def body_for(script_name):
    text = SCRIPTS[script_name]

    def body(_hw_unused):
        log = []
        faults = {n: sym_bool("fault_" + n) for n in FAULTS}
        upload = sym_bool("upload")
        pi = sym_int("pair", 0, len(PAIRS) - 1)
        platform, board, valid = PAIRS[pi.__index__() if pysym.is_sym(pi) else pi]
        overrides, CPE = make_world(log, faults, text)
        hw = pysym.HostWorld(stub_top=False, overrides=overrides, real_prefixes=("Reduino.transpile",))
        overrides["sys"].modules.update(hw.modules)
        R = hw.load("Reduino")
        from Reduino.transpile.parser import parse
        from Reduino.transpile.emitter import emit
        try:
            expected_cpp = emit(parse(text))
            script_ok = True
        except Exception:
            expected_cpp, script_ok = None, False
        result = exc = None
        try:
            result = R.target("PORT9", upload=upload, platform=platform, board=board)
        except BaseException as e:          # noqa: BLE001 - the outcome itself is what is being specified
            if isinstance(e, (pysym.PathAbort, pysym.Unsupported)):
                raise
            exc = e
        up = pysym.zbool(upload)
        F = {n: pysym.zbool(v) for n, v in faults.items()}
        sub = [e for e in log if e[0] == "subprocess"]
        files = [e for e in log if e[0] in ("mkdir", "write", "mkdtemp")]
        cmds = [e[1] for e in sub]
        if not valid:
            claim("unsupported/mismatched pair is rejected with ValueError", isinstance(exc, ValueError))
            claim("nothing is written or executed before the rejection", len(sub) == 0 and len(files) == 0 and
                  not any(e[0] == "read" for e in log))
            return
        claim("no unexpected command is ever run", not any(e[0] == "unexpected-command" for e in log))
        # --- transpile-only use needs no PlatformIO
        claim("upload=False runs no PlatformIO command at all", z3.Implies(z3.Not(up), z3.BoolVal(len(sub) == 0)))
        # --- pio missing with upload=True
        pio_missing_case = z3.And(up, F["pio_version"])
        claim("missing PlatformIO with upload=True raises RuntimeError",
              z3.Implies(pio_missing_case, z3.BoolVal(isinstance(exc, RuntimeError))))
        claim("... before anything is written", z3.Implies(pio_missing_case, z3.BoolVal(len(files) == 0)))
        no_fault_before_transpile = z3.And(z3.Not(z3.And(up, F["pio_version"])), z3.Not(F["read_main"]))
        if not script_ok:
            claim("an untranslatable script raises ValueError", z3.Implies(no_fault_before_transpile,
                                                                            z3.BoolVal(isinstance(exc, ValueError))))
            claim("... and nothing is written", z3.Implies(no_fault_before_transpile, z3.BoolVal(len(files) == 0)))
            return
        clean_files = z3.And(no_fault_before_transpile, z3.Not(F["mkdtemp"]), z3.Not(F["mkdir"]),
                             z3.Not(F["write_main"]), z3.Not(F["write_ini"]))
        any_file_fault = z3.And(no_fault_before_transpile, z3.Or(F["mkdtemp"], F["mkdir"], F["write_main"], F["write_ini"]))
        clean_all = z3.And(clean_files, z3.Or(z3.Not(up), z3.And(z3.Not(F["pio_build"]), z3.Not(F["pio_upload"]))))
        claim("a failing read of the script propagates", z3.Implies(z3.And(z3.Not(z3.And(up, F["pio_version"])), F["read_main"]),
                                                                    z3.BoolVal(isinstance(exc, OSError))))
        claim("a failing file operation propagates to the caller", z3.Implies(any_file_fault, z3.BoolVal(isinstance(exc, OSError))))
        claim("a failing file operation never reaches the build", z3.Implies(any_file_fault,
                                                                              z3.BoolVal(("pio", "run") not in cmds)))
        claim("success returns exactly the firmware source of the script", z3.Implies(clean_all, z3.BoolVal(result == expected_cpp and exc is None)))
        writes = {e[1]: e[2] for e in log if e[0] == "write"}
        main = [v for k, v in writes.items() if k.endswith("src/main.cpp")]
        ini = [v for k, v in writes.items() if k.endswith("platformio.ini")]
        claim("main.cpp holds that same source", z3.Implies(clean_files, z3.BoolVal(main == [expected_cpp])))
        if ini:
            import configparser
            cp = configparser.ConfigParser(interpolation=None)
            cp.read_string(ini[0])
            secs = cp.sections()
            ok = len(secs) == 1 and secs[0].startswith("env:")
            if ok:
                sec = cp[secs[0]]
                libs = [x.strip() for x in sec.get("lib_deps", "").split("\n") if x.strip()]
                want_libs = EXPECTED_LIBS[script_name]
                ok = (sec.get("platform") == platform and sec.get("board") == board and sec.get("upload_port") == "PORT9"
                      and sec.get("framework") == "arduino" and sorted(libs) == sorted(want_libs)
                      and len(libs) == len(set(libs)))
            claim("platformio.ini names exactly the given port, platform, board and the libraries the script needs",
                  z3.Implies(clean_files, z3.BoolVal(ok)))
        else:
            claim("platformio.ini is written", z3.Not(clean_files))
        only_project = all(e[1].startswith("/TMP/") for e in log if e[0] in ("mkdir", "write"))
        claim("only the project directory is written", only_project)
        build_i = cmds.index(("pio", "run")) if ("pio", "run") in cmds else None
        upl_i = cmds.index(("pio", "run", "-t", "upload")) if ("pio", "run", "-t", "upload") in cmds else None
        claim("build and upload run iff upload is requested", z3.Implies(clean_files, up == z3.BoolVal(build_i is not None)))
        claim("the build precedes the upload", upl_i is None or (build_i is not None and build_i < upl_i))
        claim("a failed build never proceeds to upload", z3.Implies(z3.And(clean_files, up, F["pio_build"]), z3.BoolVal(upl_i is None)))
        claim("a failed build propagates", z3.Implies(z3.And(clean_files, up, F["pio_build"]), z3.BoolVal(isinstance(exc, CPE))))
        claim("a failed upload propagates", z3.Implies(z3.And(clean_files, up, z3.Not(F["pio_build"]), F["pio_upload"]),
                                                       z3.BoolVal(isinstance(exc, CPE))))
        claim("upload happens when the build succeeded", z3.Implies(z3.And(clean_files, up, z3.Not(F["pio_build"])),
                                                                   z3.BoolVal(upl_i is not None)))
        claim("each command runs at most once", len(cmds) == len(set(cmds)))
    return body


def _work(item):
    oid, name = item
    return run_host_obligation(oid, body_for(name), max_paths=20000, max_decisions=60, budget_s=900,
                               describe="real target() over symbolic upload flag, platform/board class and fault schedule")


def run(tier, seed, only=None):
    t0 = time.time()
    items = [(f"target/{n}", n) for n in SCRIPTS]
    if only:
        items = [i for i in items if only in i[0]]
    results = run_obligations(items, _work)
    return finish(
        "C12", "other", tier, seed, results, t0,
        explanation="The real target()/validate_platform_board()/ensure_pio()/write_project()/compile_upload() are executed on "
                    "CPython with subprocess, pathlib, tempfile and sys replaced by recording stubs; whether each of the eight "
                    "effects fails is a symbolic boolean and upload / the (platform, board) class are symbolic too, so every "
                    "feasible fault schedule is one solver-chosen path; the ordering/propagation/content claims of the "
                    "property are z3 implications over the fault variables evaluated on each path's effect log.",
        functions_encoded=["Reduino.target", "Reduino._collect_required_libraries", "Reduino.toolchain.pio.validate_platform_board",
                           "ensure_pio", "write_project", "compile_upload", "_format_lib_section", "_sanitize_env_name"],
        bounds={"fault points": list(FAULTS), "pairs": [p[:2] for p in PAIRS], "scripts": list(SCRIPTS)},
        assumptions=["parse()/emit() run concretely on three fixed scripts (valid, library-using, untranslatable)",
                     "effects are stubs: a failing stub raises OSError / CalledProcessError as the real calls do"],
        stubs=["subprocess.run", "pathlib.Path.read_text/mkdir/write_text", "tempfile.mkdtemp", "sys.modules['__main__']"],
        exhaustive=True,
    )


def replay(path):
    import json
    print(json.dumps(json.load(open(path)), indent=1)[:4000])
    return 0
