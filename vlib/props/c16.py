"""C16 - buzzer: every sound is bounded, silent when it should be, follows the score.

The host Buzzer is a placeholder, so this is a specification check on the firmware alone: each script
makes one buzzer call with run-time (symbolic) or literal arguments and then prints the three getters; the
emitted C++ is lowered and executed symbolically, and on every feasible path z3 decides the protocol claims
over the tone/noTone/delay sub-trace.  Melodies are compared with the score table in
Reduino.transpile.emitter._BUZZER_MELODIES scaled by 60000/tempo (binary32, as the device computes).
"""
from __future__ import annotations

import struct
import time

import z3

from ..common import finish, run_obligations
from ..fwspec import FwSpec
from ..fwsym import BV, FP, F32
from ._script_common import ASSUMPTIONS

RNE = z3.RNE()
RTZ = z3.RTZ()
F64 = z3.Float64()

HDR = '''from Reduino import target
target("COM3", upload=False)
from Reduino.Communication import SerialMonitor
from Reduino.Core import analog_read
from Reduino.Actuators import Buzzer
mon = SerialMonitor(9600, "COM3")
bz = Buzzer(8)
while True:
    v = analog_read("A0")
    w = analog_read("A1")
'''
GET = ("    mon.write(1 if bz.get_state() else 0)\n    mon.write(bz.get_frequency())\n"
       "    mon.write(bz.get_last_frequency())\n")
PIN = 8


def r32(x):
    return struct.unpack("<f", struct.pack("<f", x))[0]


def _sx(v):
    """BV -> z3 BV64 signed"""
    if v.concrete:
        return z3.BitVecVal(v.signed(), 64)
    return z3.SignExt(64 - v.w, v.v) if v.w < 64 else v.v


def _zx(v):
    if v.concrete:
        return z3.BitVecVal(v.v, 64)
    return z3.ZeroExt(64 - v.w, v.v) if v.w < 64 else v.v


def split(events):
    """-> (inputs v,w as z3 BV64; sound events [('tone',f64bv)|('notone',)|('delay',bv)]; printed getter pieces)"""
    reads = []
    sound = []
    prints = []
    for ev in events:
        k = ev[0]
        if k == "analogRead":
            reads.append(_zx(ev[2]))
        elif k == "tone":
            sound.append(("tone", _zx(ev[2]), ev[1].v if ev[1].concrete else None))
        elif k == "noTone":
            sound.append(("notone", ev[1].v if ev[1].concrete else None))
        elif k == "delay":
            sound.append(("delay", _zx(ev[1])))
        elif k == "ser" and ev[1][0] != "c":
            prints.append(ev[1])
    v = reads[0] if reads else z3.BitVecVal(0, 64)
    w = reads[1] if len(reads) > 1 else z3.BitVecVal(0, 64)
    return v, w, sound, prints


def common_claims(sound):
    claims = []
    for s in sound:
        if s[0] == "tone":
            claims.append(("a tone never has frequency 0", s[1] == z3.BitVecVal(0, 64)))
            claims.append(("tones go to the buzzer pin", s[2] != PIN))
        if s[0] == "notone":
            claims.append(("noTone goes to the buzzer pin", s[1] != PIN))
    return claims


def ends_silent(sound):
    last = [s for s in sound if s[0] in ("tone", "notone")]
    return bool(last) and last[-1][0] == "tone"   # bad = the last sound command is a tone


def getter_claims(prints, state_expected, cur_expected, last_expected=None):
    """prints: [int state, flt current, flt last]; expected as z3 terms (BV64 / FP64) or None"""
    claims = []
    if len(prints) != 3:
        return [("three getter values printed", True)]
    st, cur, last = prints
    stv = _sx(st[1]) if isinstance(st[1], BV) else z3.BitVecVal(int(st[1]), 64)
    claims.append(("get_state() reports whether a tone is sounding", stv != state_expected))

    def f64(p):
        x = p[1]
        if isinstance(x, FP):
            z = x.z()
            return z if x.k == 64 else z3.fpFPToFP(RNE, z, F64)
        return z3.FPVal(float(x), F64)
    if cur_expected is not None:
        claims.append(("get_frequency() reports the tone currently sounding",
                       z3.Not(z3.fpLEQ(z3.fpAbs(z3.fpSub(RNE, f64(cur), cur_expected)), z3.FPVal(0.51, F64)))))
    if last_expected is not None:
        claims.append(("get_last_frequency() reports the last tone sounded",
                       z3.Not(z3.fpLEQ(z3.fpAbs(z3.fpSub(RNE, f64(last), last_expected)), z3.FPVal(0.51, F64)))))
    return claims


def i2f(bv):
    return z3.fpSignedToFP(RNE, bv, F64)


ZERO = z3.BitVecVal(0, 64)
ONE = z3.BitVecVal(1, 64)
DEFAULT_FREQ = 440.0


def last_sounded_claim(sound, prints):
    """get_last_frequency() is the frequency of the last tone() of the trace (the constructor default when the trace
    has none): decided per path, where the number of tone events is fixed."""
    if len(prints) != 3:
        return []
    tones = [s for s in sound if s[0] == "tone"]
    want = i2f(tones[-1][1]) if tones else z3.FPVal(DEFAULT_FREQ, F64)
    last = prints[2][1]
    if isinstance(last, FP):
        lz = last.z() if last.k == 64 else z3.fpFPToFP(RNE, last.z(), F64)
    else:
        lz = z3.FPVal(float(last), F64)
    return [("get_last_frequency() reports the last tone actually sounded (a silent call leaves it alone)",
             z3.Not(z3.fpLEQ(z3.fpAbs(z3.fpSub(RNE, lz, want)), z3.FPVal(0.51, F64))))]


def an_last_only(events, ctx):
    v, w, sound, prints = split(events)
    claims = common_claims(sound)
    claims.append(("a call with a duration leaves the pin silent", ends_silent(sound)))
    claims += getter_claims(prints, ZERO, z3.FPVal(0.0, F64), None)
    claims += last_sounded_claim(sound, prints)
    return claims


# ---- per-call analyses ---------------------------------------------------------------------------
def an_play_tone_dur(freq_of, dur_of):
    def analyse(events, ctx):
        v, w, sound, prints = split(events)
        f, d = freq_of(v, w), dur_of(v, w)
        claims = common_claims(sound)
        tones = [s for s in sound if s[0] == "tone"]
        pos = f > ZERO
        claims.append(("non-positive frequency never starts a tone", z3.And(z3.Not(pos), z3.BoolVal(len(tones) > 0))))
        claims.append(("positive frequency sounds exactly once", z3.And(pos, z3.BoolVal(len(tones) != 1))))
        if tones:
            claims.append(("the tone has the requested frequency", z3.And(pos, tones[0][1] != f)))
        claims.append(("a call with a duration leaves the pin silent", ends_silent(sound)))
        delays = [s[1] for s in sound if s[0] == "delay"]
        tot = sum(delays, ZERO) if delays else ZERO
        claims.append(("sounds for the requested duration", tot != z3.If(d > ZERO, d, ZERO)))
        claims += getter_claims(prints, ZERO, z3.FPVal(0.0, F64), None)
        claims.append(("last frequency is the tone sounded", False))
        if len(prints) == 3:
            last = prints[2][1]
            lz = last.z() if isinstance(last, FP) else z3.FPVal(float(last), F64)
            lz = lz if not isinstance(last, FP) or last.k == 64 else z3.fpFPToFP(RNE, lz, F64)
            claims.append(("get_last_frequency() is the last tone sounded (or the default when none)",
                           z3.Not(z3.If(pos, z3.fpEQ(lz, i2f(f)), z3.fpEQ(lz, z3.FPVal(440.0, F64))))))
        return claims
    return analyse


def an_play_tone_hold(freq_of):
    def analyse(events, ctx):
        v, w, sound, prints = split(events)
        f = freq_of(v, w)
        claims = common_claims(sound)
        tones = [s for s in sound if s[0] == "tone"]
        pos = f > ZERO
        claims.append(("non-positive frequency never starts a tone", z3.And(z3.Not(pos), z3.BoolVal(len(tones) > 0))))
        claims.append(("positive frequency sounds exactly once", z3.And(pos, z3.BoolVal(len(tones) != 1))))
        claims.append(("no delay without a duration", any(s[0] == "delay" for s in sound)))
        claims += getter_claims(prints, z3.If(pos, ONE, ZERO), z3.If(pos, i2f(f), z3.FPVal(0.0, F64)),
                                z3.If(pos, i2f(f), z3.FPVal(440.0, F64)))
        return claims
    return analyse


def an_stop(events, ctx):
    v, w, sound, prints = split(events)
    claims = common_claims(sound)
    claims.append(("stop() silences the pin", ends_silent(sound) or not any(s[0] == "notone" for s in sound)))
    claims += getter_claims(prints, ZERO, z3.FPVal(0.0, F64), None)
    claims += last_sounded_claim(sound, prints)
    return claims


def an_beep(freq_of, on_of, off_of, times_of):
    def analyse(events, ctx):
        v, w, sound, prints = split(events)
        f, on, off, n = freq_of(v, w), on_of(v, w), off_of(v, w), times_of(v, w)
        claims = common_claims(sound)
        tones = [s for s in sound if s[0] == "tone"]
        pos = f > ZERO
        ncl = z3.If(n > ZERO, n, ZERO)
        claims.append(("beep sounds exactly `times` times for a positive frequency",
                       z3.And(pos, z3.BitVecVal(len(tones), 64) != ncl)))
        claims.append(("non-positive frequency never starts a tone", z3.And(z3.Not(pos), z3.BoolVal(len(tones) > 0))))
        for t in tones:
            claims.append(("every beep has the requested frequency", z3.And(pos, t[1] != f)))
        claims.append(("beep leaves the pin silent", ends_silent(sound)))
        # gaps: after each tone: delay(on) then noTone; between beeps delay(off)
        idx = [i for i, s in enumerate(sound) if s[0] == "tone"]
        for j, i in enumerate(idx):
            nxt = sound[i + 1:i + 3]
            on_ok = (len(nxt) >= 1 and nxt[0][0] == "delay") or True
            if len(nxt) >= 2 and nxt[0][0] == "delay" and nxt[1][0] == "notone":
                claims.append(("each beep lasts on_ms", z3.And(on > ZERO, nxt[0][1] != on)))
            elif len(nxt) >= 1 and nxt[0][0] == "notone":
                claims.append(("each beep lasts on_ms", on > ZERO))
            else:
                claims.append(("each beep is followed by silence", True))
            if j + 1 < len(idx):
                between = sound[i + 1:idx[j + 1]]
                gaps = [s[1] for s in between if s[0] == "delay"]
                tot = sum(gaps, ZERO) if gaps else ZERO
                want = z3.If(on > ZERO, on, ZERO) + z3.If(off > ZERO, off, ZERO)
                claims.append(("beeps are separated by on_ms + off_ms", tot != want))
        claims += getter_claims(prints, ZERO, z3.FPVal(0.0, F64), None)
        claims += last_sounded_claim(sound, prints)
        return claims
    return analyse


def an_sweep(start, end_of, dur_of, steps):
    def analyse(events, ctx):
        v, w, sound, prints = split(events)
        e, d = end_of(v, w), dur_of(v, w)
        claims = common_claims(sound)
        tones = [s for s in sound if s[0] == "tone"]
        epos = e > ZERO
        # with start > 0 every interpolated frequency between start and a positive end is positive
        claims.append(("sweep plays `steps` tones", z3.And(epos, z3.BoolVal(len(tones) != steps))))
        if tones:
            claims.append(("sweep ends on the end frequency", z3.And(epos, tones[-1][1] != e)))
            if steps > 1:
                claims.append(("sweep starts on the start frequency", tones[0][1] != z3.BitVecVal(start, 64)))
            up = e >= z3.BitVecVal(start, 64)
            for a, b in zip(tones, tones[1:]):
                claims.append(("sweep moves monotonically", z3.And(epos, z3.If(up, z3.UGT(a[1], b[1]), z3.ULT(a[1], b[1])))))
        delays = [s[1] for s in sound if s[0] == "delay"]
        tot = sum(delays, ZERO) if delays else ZERO
        claims.append(("sweep never exceeds the requested duration", z3.UGT(tot, z3.If(d > ZERO, d, ZERO))))
        claims.append(("sweep leaves the pin silent", ends_silent(sound)))
        claims += getter_claims(prints, ZERO, z3.FPVal(0.0, F64), None)
        claims += last_sounded_claim(sound, prints)
        return claims
    return analyse


def expected_melody(name, tempo):
    from Reduino.transpile import emitter
    spec = emitter._BUZZER_MELODIES[name]
    t = r32(float(tempo if tempo is not None and tempo > 0 else spec["tempo"]))
    beat_ms = r32(r32(60000.0) / t)
    out = []
    for freq, beats in spec["sequence"]:
        dur = int(r32(r32(beats) * beat_ms))
        f = r32(freq)
        if f <= 0:
            out.append(("notone",))
            if dur > 0:
                out.append(("delay", dur))
        else:
            out.append(("tone", int(r32(f + 0.5))))
            if dur > 0:
                out.append(("delay", dur))
            out.append(("notone",))
    return out


def an_melody(name, tempo):
    def analyse(events, ctx):
        v, w, sound, prints = split(events)
        claims = common_claims(sound)
        want = expected_melody(name, tempo)
        got = []
        for s in sound:
            if s[0] == "tone":
                got.append(("tone", z3.simplify(s[1]).as_long() if z3.is_bv_value(z3.simplify(s[1])) else None))
            elif s[0] == "delay":
                got.append(("delay", z3.simplify(s[1]).as_long() if z3.is_bv_value(z3.simplify(s[1])) else None))
            else:
                got.append(("notone",))
        claims.append((f"melody {name!r} plays the score's notes in order with durations 60000/tempo per beat", got != want))
        claims.append(("melody leaves the pin silent", ends_silent(sound)))
        claims += getter_claims(prints, ZERO, z3.FPVal(0.0, F64), None)
        claims += last_sounded_claim(sound, prints)
        return claims
    return analyse


def an_melody_tempo_rt(name):
    """run-time tempo: the note sequence is fixed, every duration is (unsigned long)(beats * 60000/tempo)."""
    def analyse(events, ctx):
        from Reduino.transpile import emitter
        v, w, sound, prints = split(events)
        claims = common_claims(sound)
        spec = emitter._BUZZER_MELODIES[name]
        tones = [s for s in sound if s[0] == "tone"]
        want_tones = [int(r32(r32(f) + 0.5)) for f, _ in spec["sequence"] if f > 0]
        claims.append(("melody plays exactly the score's notes", len(tones) != len(want_tones)))
        for t, wt in zip(tones, want_tones):
            claims.append(("melody note frequency", t[1] != z3.BitVecVal(wt, 64)))
        tempo32 = z3.fpSignedToFP(RNE, v, F32)
        tempo32 = z3.If(z3.fpLEQ(tempo32, z3.FPVal(0.0, F32)), z3.FPVal(r32(spec["tempo"]), F32), tempo32)
        beat = z3.fpDiv(RNE, z3.FPVal(60000.0, F32), tempo32)
        delays = [s[1] for s in sound if s[0] == "delay"]
        j = 0
        for f, beats in spec["sequence"]:
            dur = z3.fpMul(RNE, z3.FPVal(r32(beats), F32), beat)
            expect = z3.fpToUBV(RTZ, dur, z3.BitVecSort(64))
            positive = z3.fpGT(dur, z3.FPVal(0.0, F32))
            if j < len(delays):
                claims.append(("note duration is beats*60000/tempo", z3.And(positive, z3.fpLT(dur, z3.FPVal(4e9, F32)), delays[j] != expect)))
            j += 1
        claims.append(("melody leaves the pin silent", ends_silent(sound)))
        return claims
    return analyse


def cases(tier):
    V = lambda v, w: v
    Vm = lambda v, w: v - z3.BitVecVal(300, 64)
    W = lambda v, w: w
    C = lambda k: (lambda v, w: z3.BitVecVal(k, 64))
    out = []
    out.append(("play_tone/rt_freq_lit_dur", "    bz.play_tone(v - 300, 100)\n", an_play_tone_dur(Vm, C(100))))
    out.append(("play_tone/rt_freq_rt_dur", "    bz.play_tone(v - 300, w)\n", an_play_tone_dur(Vm, W)))
    out.append(("play_tone/lit_freq_zero_dur", "    bz.play_tone(440, 0)\n", an_play_tone_dur(C(440), C(0))))
    out.append(("play_tone/lit_freq_kw_dur", "    bz.play_tone(440, duration_ms=250 - 250)\n", an_play_tone_dur(C(440), C(0))))
    out.append(("play_tone/zero_freq", "    bz.play_tone(0, 50)\n", an_play_tone_dur(C(0), C(50))))
    out.append(("play_tone/hold_rt", "    bz.play_tone(v - 300)\n", an_play_tone_hold(Vm)))
    out.append(("play_tone/hold_lit", "    bz.play_tone(220)\n", an_play_tone_hold(C(220))))
    out.append(("stop/after_hold", "    bz.play_tone(330)\n    bz.stop()\n", an_stop))
    out.append(("beep/rt_freq", "    bz.beep(v - 300, on_ms=50, off_ms=60, times=2)\n", an_beep(Vm, C(50), C(60), C(2))))
    out.append(("beep/rt_times", "    bz.beep(880, on_ms=20, off_ms=30, times=v // 400)\n",
                an_beep(C(880), C(20), C(30), lambda v, w: z3.UDiv(v, z3.BitVecVal(400, 64)))))
    out.append(("beep/rt_gaps", "    bz.beep(660, on_ms=v, off_ms=w, times=3)\n", an_beep(C(660), V, W, C(3))))
    out.append(("beep/defaults", "    bz.beep()\n", an_beep(C(440), C(100), C(100), C(1))))
    out.append(("beep/positional", "    bz.beep(500)\n", an_beep(C(500), C(100), C(100), C(1))))
    out.append(("sweep/rt_end_4", "    bz.sweep(200, v + 1, duration_ms=300, steps=4)\n",
                an_sweep(200, lambda v, w: v + z3.BitVecVal(1, 64), C(300), 4)))
    out.append(("sweep/one_step", "    bz.sweep(200, v + 1, duration_ms=30, steps=1)\n",
                an_sweep(200, lambda v, w: v + z3.BitVecVal(1, 64), C(30), 1)))
    out.append(("sweep/two_steps_rt_dur", "    bz.sweep(300, 900, duration_ms=w, steps=2)\n", an_sweep(300, C(900), W, 2)))
    out.append(("sweep/default_steps", "    bz.sweep(100, 1000, duration_ms=200)\n", an_sweep(100, C(1000), C(200), 10)))
    out.append(("sweep/down", "    bz.sweep(900, v + 1, duration_ms=90, steps=3)\n",
                an_sweep(900, lambda v, w: v + z3.BitVecVal(1, 64), C(90), 3)))
    # two calls: what the second (possibly silent) call does to "the tone last sounded"
    out.append(("last/tone_then_rt_beep", "    bz.play_tone(330, 10)\n    bz.beep(v - 300, on_ms=5, off_ms=5, times=1)\n", an_last_only))
    out.append(("last/tone_then_zero_times", "    bz.play_tone(330, 10)\n    bz.beep(880, on_ms=5, off_ms=5, times=v // 600)\n", an_last_only))
    out.append(("last/tone_then_rt_tone", "    bz.play_tone(330, 10)\n    bz.play_tone(v - 300, 20)\n", an_last_only))
    out.append(("last/tone_then_silent_sweep", "    bz.play_tone(330, 10)\n    bz.sweep(0, v - 300, duration_ms=20, steps=2)\n", an_last_only))
    out.append(("last/beep_then_default_beep", "    bz.beep(v - 300, on_ms=5, off_ms=5, times=1)\n    bz.beep()\n", an_last_only))
    out.append(("rebind/prologue_two_pins", REBIND_SRC, an_rebind))
    from Reduino.transpile import emitter
    for name in emitter._BUZZER_MELODIES:
        out.append((f"melody/{name}", f'    bz.melody("{name}")\n', an_melody(name, None)))
    # spellings of the tune name the parser accepts (it validates case-insensitively): same score, or rejected
    for spelled in ("Success", "SUCCESS", "sUcCeSs"):
        out.append((f"melody/spelling/{spelled}", f'    bz.melody("{spelled}")\n', an_melody("success", None)))
    out.append(("melody/spelling/Alarm_tempo", '    bz.melody("Alarm", tempo=90)\n', an_melody("alarm", 90)))
    out.append(("melody/startup_tempo", '    bz.melody("startup", tempo=300)\n', an_melody("startup", 300)))
    out.append(("melody/alarm_tempo_kw", '    bz.melody("alarm", tempo=90)\n', an_melody("alarm", 90)))
    out.append(("melody/error_tempo_rt", '    bz.melody("error", tempo=v)\n', an_melody_tempo_rt("error")))
    if tier == "thorough":
        out.append(("melody/siren_tempo_rt", '    bz.melody("siren", tempo=v)\n', an_melody_tempo_rt("siren")))
    return out


def an_rebind(events, ctx):
    """A buzzer name bound to pin 8, used, bound again to pin 9, used: every tone/noTone goes to the pin the name is
    bound to at that point of the program."""
    v, w, sound, prints = split(events)
    tones = [s for s in sound if s[0] == "tone"]
    claims = [("two tones are played", len(tones) != 2)]
    if len(tones) == 2:
        claims.append(("the first tone goes to the first pin", tones[0][2] != 8))
        claims.append(("the first tone has its frequency", tones[0][1] != z3.BitVecVal(500, 64)))
        claims.append(("after re-binding the name the tone goes to the new pin", tones[1][2] != 9))
        claims.append(("the second tone has its frequency", tones[1][1] != z3.BitVecVal(600, 64)))
    seen_second = False
    for s in sound:
        if s[0] == "tone" and s[2] == 9:
            seen_second = True
        if s[0] == "notone":
            claims.append(("silence goes to the pin that is sounding", s[1] != (9 if seen_second else 8)))
    return claims


REBIND_SRC = HDR.split("mon = ")[0] + ('mon = SerialMonitor(9600, "COM3")\nbz = Buzzer(8)\nbz.beep(500, on_ms=5, off_ms=5, times=1)\n'
                                        'bz = Buzzer(9)\nbz.play_tone(600, 10)\nwhile True:\n    v = analog_read("A0")\n')


def _work(item):
    oid, body, analyse = item
    src = HDR + body + GET
    if oid.startswith("rebind/"):
        src = body
    return FwSpec("buzzer/" + oid, src, analyse, passes=1, max_block_visits=300,
                  describe="tone protocol claims over the tone/noTone/delay sub-trace and the getters").run()


def run(tier, seed, only=None):
    t0 = time.time()
    items = cases(tier)
    if only:
        items = [i for i in items if only in i[0]]
    results = run_obligations(items, _work)
    return finish(
        "C16", "other", tier, seed, results, t0,
        explanation="One buzzer call per script (run-time arguments from sensor reads: frequency -300..723, durations/gaps "
                    "0..1023, counts 0..2; literal variants incl. zero and constant-folded durations), getters printed "
                    "afterwards; the emitted C++ is lowered and executed symbolically and z3 decides on every feasible path the "
                    "tone-protocol claims (no tone with frequency <= 0, calls with a duration end silent with get_state() "
                    "false, beep count/gaps, sweep count/monotonicity/end points/total time, getter values); melodies are "
                    "compared note-by-note with the score table scaled by 60000/tempo.",
        functions_encoded=["emitter templates for BuzzerPlayTone/Stop/Beep/Sweep/Melody as lowered IR",
                           "parser buzzer argument binding (through the real parse())"],
        bounds={"beep times": "<=3", "sweep steps": "1,2,3,4,10 (literal)", "melodies": "all seven, default tempo; 2 literal tempi; 1 run-time tempo"},
        assumptions=ASSUMPTIONS + ["the melody score table in emitter._BUZZER_MELODIES is the statement of 'the named tune' "
                                   "(an edit of the table alone is outside the claim)", "getter floats compared within 0.51 Hz"],
        stubs=["tone/noTone/delay -> trace events"],
    )


def replay(path):
    import json
    print(json.dumps(json.load(open(path)), indent=1)[:4000])
    return 0
