"""C18 - LCD animations never block, stay inside their row, finish unless looping.

start/*    differential: the frame drawn by animate() equals the host's buffer; no delay.
run/*      firmware: setup + N passes of the real start/tick templates (LCDTick injected by the transpiler), clock
           symbolic and non-decreasing; claims per path: no delay() ever, one clock read per animation per pass,
           every put inside the animation's row and inside the display, a non-looping animation stops drawing
           after at most the linear bound of steps, a looping one keeps drawing.
rate/*     firmware with speed_ms > 0 and a symbolic clock: two passes that both step are at least speed_ms
           apart once the clock is running (z3 decides over all tick time sequences).
host/*     the real host LCD.animate/tick under pysym with symbolic, non-decreasing, positive timestamps: never
           raises, rows keep the display width, other rows untouched, same step bound, same rate limit.
"""
from __future__ import annotations

import time

import z3

from .. import pysym
from ..common import finish, run_obligations
from ..diffscript import ScriptDiff
from ..fwspec import FwSpec
from ..fwsym import BV
from ..hostcheck import claim, run_host_obligation
from ._script_common import ASSUMPTIONS

HDR = '''from Reduino import target
target("COM3", upload=False)
from Reduino.Utils import sleep
from Reduino.Displays import LCD
'''
STYLES = ("scroll", "blink", "typewriter", "bounce")


def bound(style, n, c):
    if style == "scroll":
        return max(n, c) + c + 1
    if style == "blink":
        return 2
    if style == "typewriter":
        return n + 1
    return 2 * c + 1


def script(style, cols, rows, row, text, speed, loop, wiring="i2c"):
    d = (f"lcd = LCD(i2c_addr=0x27, cols={cols}, rows={rows})\n" if wiring == "i2c" else
         f"lcd = LCD(rs=12, en=11, d4=5, d5=4, d6=3, d7=2, cols={cols}, rows={rows})\n")
    pre = "".join(f'lcd.line({r}, "{"xyzw"[r] * cols}")\n' for r in range(rows))
    return (HDR + d + pre + f'lcd.animate("{style}", {row}, "{text}", speed_ms={speed}, loop={loop})\n'
            + "while True:\n    pass\n")


def run_analyse(style, cols, rows, row, n, loop, passes):
    b = bound(style, n, cols)

    def analyse(events, ctx):
        claims = []
        per_pass = []
        cur = None
        setup_puts = []
        for ev in events:
            if ev[0] == "marker":
                cur = {"puts": [], "reads": 0} if ev[1] == "loop" else None
                if cur is not None:
                    per_pass.append(cur)
                continue
            if ev[0] == "delay":
                claims.append(("animations never call delay()", True))
            if ev[0] == "millis" and cur is not None:
                cur["reads"] += 1
            if ev[0] == "lcd_put":
                (cur["puts"] if cur is not None else setup_puts).append((ev[2], ev[3]))
        anim_puts = [p for k in per_pass for p in k["puts"]]
        claims.append(("every animation write stays in the animation's row", any(r != row for r, c in anim_puts)))
        claims.append(("every animation write stays inside the display width", any(not 0 <= c < cols for r, c in anim_puts)))
        claims.append(("the clock is read at most once per animation per pass", any(k["reads"] > 1 for k in per_pass)))
        claims.append(("animate() is advanced in every pass while active (tick injected)", len(per_pass) > 0 and per_pass[0]["reads"] != 1))
        drawing = [len(k["puts"]) > 0 for k in per_pass]
        if loop:
            if style != "blink" or True:
                # a looping animation never becomes inactive: it reads the clock in every pass
                claims.append(("a looping animation stays active", any(k["reads"] != 1 for k in per_pass)))
        else:
            late = drawing[b:]
            claims.append((f"a non-looping {style} stops within {b} steps (linear in text length and width)", any(late)))
            claims.append(("an inactive animation no longer polls the clock", any(k["reads"] != 0 for k in per_pass[b + 1:])))
        return claims
    return analyse


def rate_analyse(speed, row):
    def analyse(events, ctx):
        claims = []
        passes = []
        cur = None
        for ev in events:
            if ev[0] == "marker":
                cur = {"now": None, "puts": 0} if ev[1] == "loop" else None
                if cur is not None:
                    passes.append(cur)
                continue
            if cur is None:
                continue
            if ev[0] == "millis":
                v = ev[1]
                cur["now"] = z3.BitVecVal(v.v, 64) if v.concrete else v.v
            elif ev[0] == "lcd_put":
                cur["puts"] += 1
            elif ev[0] == "delay":
                claims.append(("animations never call delay()", True))
        steps = [p for p in passes if p["puts"] > 0 and p["now"] is not None]
        for a, b in zip(steps, steps[1:]):
            bad = z3.And(a["now"] != z3.BitVecVal(0, 64), z3.ULT(b["now"] - a["now"], z3.BitVecVal(speed, 64)))
            claims.append(("two steps are at least speed_ms apart once the clock is running", bad))
        claims.append(("at least one pass observed", len(passes) == 0))
        return claims
    return analyse


def host_body(style, cols, rows, row, text, speed, loop, ticks):
    n = len(text)
    b = bound(style, n, cols)

    def body(hw):
        D = hw.load("Reduino.Displays")
        lcd = D.LCD(i2c_addr=0x27, cols=cols, rows=rows)
        for r in range(rows):
            lcd.line(r, "xyzw"[r] * cols)
        others = {r: lcd.buffer[r] for r in range(rows) if r != row}
        lcd.animate(style, row, text, speed_ms=speed, loop=loop)
        state = list(lcd.animations.values())[0]
        prev = pysym.sym_int("t0", 1, 1 << 30)
        times = [prev]
        for i in range(1, ticks):
            d = pysym.sym_int(f"d{i}", 0, 1 << 20)
            prev = prev + d
            times.append(prev)
        last_step_time = None
        steps = 0
        for i, t in enumerate(times):
            before = (state.offset, state.visible, state.show, state.cycles, state.active, lcd.buffer[row])
            before_last = state.last_tick
            was_active = state.active
            try:
                lcd.tick(t)
            except Exception as e:     # noqa: BLE001 - the claim is that tick never raises
                claim(f"tick never raises ({type(e).__name__}: {e})", False)
                return
            after = (state.offset, state.visible, state.show, state.cycles, state.active, lcd.buffer[row])
            stepped = was_active and (state.last_tick is not before_last or after != before)
            if stepped:
                if last_step_time is not None and speed > 0:
                    claim("host: two steps are at least speed_ms apart",
                          pysym.zint(t) - pysym.zint(last_step_time) >= speed)
                last_step_time = t
                steps += 1
            for r, v in others.items():
                claim("host: other rows untouched", lcd.buffer[r] == v)
            claim("host: every row keeps the display width", all(len(x) == cols for x in lcd.buffer))
        if not loop and speed == 0:
            claim(f"host: a non-looping {style} is inactive after {b} steps", (not state.active) if ticks >= b else True)
            claim("host: steps taken within the bound", steps <= b)
        if loop:
            claim("host: a looping animation stays active", state.active is True)
    return body


def host_two_displays(style_a, style_b, first_b_created_late):
    """Two host displays alive at once (different geometries), an animation on each, ticked alternately at symbolic
    times: each display only ever changes its own animation's row, tick never raises, a looping animation on one
    display survives whatever happens to the other (including its creation and begin())."""
    def body(hw):
        D = hw.load("Reduino.Displays")
        big = D.LCD(i2c_addr=0x27, cols=20, rows=4)
        for r in range(4):
            big.line(r, "xyzw"[r] * 20)
        big.animate(style_a, 3, "abcdef", speed_ms=0, loop=True)
        if first_b_created_late:
            big.tick(pysym.sym_int("t_pre", 1, 1 << 20))
        small = D.LCD(rs=12, en=11, d4=5, d5=4, d6=3, d7=2, cols=8, rows=1)
        small.line(0, "q" * 8)
        small.animate(style_b, 0, "hi", speed_ms=0, loop=False)
        claim("each display keeps its own animation table", len(big.animations) == 1 and len(small.animations) == 1)
        big_others = {r: big.buffer[r] for r in range(3)}
        t = pysym.sym_int("t0", 1, 1 << 20)
        for i in range(4):
            t = t + pysym.sym_int(f"d{i}", 0, 1 << 16)
            for name, lcd in (("small", small), ("big", big)):
                try:
                    lcd.tick(t)
                except Exception as e:     # noqa: BLE001 - the claim is that tick never raises
                    claim(f"tick never raises ({name}: {type(e).__name__}: {e})", False)
                    return
            for r, v in big_others.items():
                claim("big display: rows without an animation untouched", big.buffer[r] == v)
            claim("big display: every row keeps the display width", all(len(x) == 20 for x in big.buffer))
            claim("small display: row keeps the display width", len(small.buffer) == 1 and len(small.buffer[0]) == 8)
        claim("the looping animation of the big display is still active", all(a.active for a in big.animations.values())
              and len(big.animations) == 1)
    return body


def host_registry_history(s0, s1):
    """A history of animate() calls interleaved with ticks on one display: a one-shot animation (style s0), a looping
    one (style s1, row solver-chosen), ticks until the one-shot has finished, then a third animation (same style as
    the looping one or another, row and loop flag solver-chosen) and more ticks.  Every looping animation that was
    started stays registered and active whatever finishes, is pruned or is started around it; tick never raises."""
    def body(hw):
        D = hw.load("Reduino.Displays")
        lcd = D.LCD(i2c_addr=0x27, cols=8, rows=2)
        styles = ["scroll", "blink", "typewriter", "bounce"]

        def pick(name, hi):
            v = pysym.sym_int(name, 0, hi)
            return v.__index__() if pysym.is_sym(v) else v
        same = bool(pick("third_has_style_of_looping", 1))
        plan = [(s0, 0, False, 0), (s1, pick("row1", 1), True, 14),
                ((s1 if same else styles[(styles.index(s1) + 1) % 4]), pick("row2", 1), bool(pick("loop2", 1)), 4)]
        started = []
        t = 0
        for style, row, loop, nticks in plan:
            before = set(map(id, lcd.animations.values()))
            lcd.animate(style, row, "ab", speed_ms=0, loop=loop)
            new = [a for a in lcd.animations.values() if id(a) not in before]
            claim("animate() registers exactly one new animation", len(new) == 1)
            if len(new) == 1:
                started.append((new[0], loop, style, row))
            for _ in range(nticks):
                t += 7
                try:
                    lcd.tick(t)
                except Exception as e:     # noqa: BLE001 - the claim is that tick never raises
                    claim(f"tick never raises ({type(e).__name__}: {e})", False)
                    return
                for a, lp, st, rw in started:
                    if lp:
                        claim(f"a looping {st} is still registered", any(x is a for x in lcd.animations.values()))
                        claim(f"a looping {st} is still active", a.active is True)
            claim("every row keeps the display width", all(len(x) == 8 for x in lcd.buffer))
    return body


def cases(tier):
    items = []
    for s0 in STYLES:
        for s1 in STYLES:
            items.append(("hostreg", f"host/registry_history/{s0}_then_looping_{s1}", s0, s1))
    for sa, sb in (("bounce", "typewriter"), ("scroll", "blink"), ("blink", "scroll"), ("typewriter", "bounce")):
        for late in (False, True):
            items.append(("host2", f"host/two_displays/{sa}+{sb}/second_created_{'late' if late else 'early'}", sa, sb, late))
    geoms = [(6, 2, 1)] if tier == "quick" else [(6, 2, 1), (4, 1, 0), (8, 4, 2)]
    for cols, rows, row in geoms:
        texts = {"empty": "", "short": "ab", "fit": "abcdefgh"[:cols], "long": "abcdefghijkl"[:cols + 3]}
        for style in STYLES:
            for tname, text in texts.items():
                items.append(("start", f"start/{style}/{cols}x{rows}/{tname}", script(style, cols, rows, row, text, 200, False)))
                for loop in (False, True):
                    b = bound(style, len(text), cols)
                    N = b + 2 if not loop else min(b + 2, 8)
                    if tier == "quick" and tname == "fit" and loop:
                        continue
                    items.append(("run", f"run/{style}/{cols}x{rows}/{tname}/loop={loop}", script(style, cols, rows, row, text, 0, loop),
                                  style, cols, rows, row, len(text), loop, N))
                    ticks = b + 1 if not loop else min(b + 1, 6)
                    items.append(("host", f"host/{style}/{cols}x{rows}/{tname}/loop={loop}/speed=0",
                                  style, cols, rows, row, text, 0, loop, ticks))
            items.append(("rate", f"rate/{style}/{cols}x{rows}", script(style, cols, rows, row, "abc", 150, True), 150, row, 4))
            items.append(("rate_wrap", f"rate/{style}/{cols}x{rows}/wrapping_clock", script(style, cols, rows, row, "abc", 150, True), 150, row, 3))
            items.append(("host", f"host/{style}/{cols}x{rows}/rate", style, cols, rows, row, "abc", 150, True, 4))
    # two animations on one display, and a parallel display
    two = (HDR + "lcd = LCD(i2c_addr=0x27, cols=6, rows=2)\n" + 'lcd.animate("blink", 0, "ab", speed_ms=0, loop=True)\n'
           'lcd.animate("typewriter", 1, "cde", speed_ms=0)\nwhile True:\n    pass\n')
    items.append(("twoanims", "run/two_animations", two))
    inloop = (HDR + "lcd = LCD(i2c_addr=0x27, cols=6, rows=2)\nstarted = 0\nwhile True:\n    if started == 0:\n"
              '        lcd.animate("typewriter", 0, "abc", speed_ms=0)\n        started = 1\n')
    items.append(("inloop", "run/animate_started_in_loop", inloop))
    return items


def two_analyse(events, ctx):
    claims = []
    per_pass = []
    cur = None
    for ev in events:
        if ev[0] == "marker":
            cur = {"rows": set(), "reads": 0} if ev[1] == "loop" else None
            if cur is not None:
                per_pass.append(cur)
            continue
        if ev[0] == "delay":
            claims.append(("animations never call delay()", True))
        if cur is None:
            continue
        if ev[0] == "millis":
            cur["reads"] += 1
        if ev[0] == "lcd_put":
            cur["rows"].add(ev[2])
            if not (0 <= ev[3] < 6 and 0 <= ev[2] < 2):
                claims.append(("writes stay on the display", True))
    claims.append(("both animations are advanced in the first pass", not per_pass or per_pass[0]["reads"] != 2))
    claims.append(("the finished typewriter stops polling, the looping blink continues",
                   len(per_pass) >= 6 and per_pass[5]["reads"] != 1))
    return claims


def inloop_analyse(events, ctx):
    per_pass = []
    cur = None
    claims = []
    for ev in events:
        if ev[0] == "marker":
            cur = {"reads": 0, "puts": 0} if ev[1] == "loop" else None
            if cur is not None:
                per_pass.append(cur)
            continue
        if cur is None:
            continue
        if ev[0] == "millis":
            cur["reads"] += 1
        if ev[0] == "lcd_put":
            cur["puts"] += 1
        if ev[0] == "delay":
            claims.append(("animations never call delay()", True))
    claims.append(("an animation started in the loop body is advanced once per following pass",
                   len(per_pass) >= 3 and (per_pass[1]["reads"] != 1 or per_pass[2]["reads"] != 1)))
    return claims


def _work(item):
    kind = item[0]
    if kind == "inloop":
        return FwSpec(item[1], item[2], inloop_analyse, passes=4, max_block_visits=3000, max_paths=300).run()
    if kind == "start":
        return ScriptDiff(item[1], item[2], passes=0, max_block_visits=400).run()
    if kind == "run":
        _, oid, src, style, cols, rows, row, n, loop, N = item
        return FwSpec(oid, src, run_analyse(style, cols, rows, row, n, loop, N), passes=N, max_block_visits=3000,
                      max_paths=300, describe="animation start + N ticks, clock symbolic").run()
    if kind in ("rate", "rate_wrap"):
        _, oid, src, speed, row, N = item
        return FwSpec(oid, src, rate_analyse(speed, row), passes=N, max_block_visits=3000, max_paths=400,
                      clock_wrap=(kind == "rate_wrap"),
                      describe="rate limit over symbolic tick times" + (" (millisecond counter free to wrap between any two "
                                                                        "readings)" if kind == "rate_wrap" else "")).run()
    if kind == "twoanims":
        return FwSpec(item[1], item[2], two_analyse, passes=6, max_block_visits=3000, max_paths=300).run()
    if kind == "hostreg":
        return run_host_obligation(item[1], host_registry_history(item[2], item[3]), max_paths=400, max_decisions=600, budget_s=200)
    if kind == "host2":
        _, oid, sa, sb, late = item
        return run_host_obligation(oid, host_two_displays(sa, sb, late), max_paths=600, max_decisions=400, budget_s=200)
    if kind == "host":
        _, oid, style, cols, rows, row, text, speed, loop, ticks = item
        return run_host_obligation(oid, host_body(style, cols, rows, row, text, speed, loop, ticks), max_paths=600,
                                   max_decisions=400, budget_s=200)
    raise ValueError(kind)


def run(tier, seed, only=None):
    t0 = time.time()
    items = cases(tier)
    if only:
        items = [i for i in items if only in i[1]]
    results = run_obligations(items, _work)
    return finish(
        "C18", "other", tier, seed, results, t0,
        explanation="The real start/tick helper templates, instantiated by emit() for all four styles, are lowered and run for "
                    "setup()+N passes with the millisecond clock symbolic (non-decreasing): per feasible path z3 decides that "
                    "no delay() is ever issued, writes stay in the animation's row and inside the display, the clock is "
                    "polled once per active animation per pass (tick injected), non-looping animations stop drawing within "
                    "the linear step bound (scroll max(n,c)+c+1, blink 2, typewriter n+1, bounce 2c+1) while looping ones keep "
                    "polling, and that two stepping passes are >= speed_ms apart once the clock is running.  The start frame "
                    "is compared with the host buffer; the host's real animate/tick run under pysym with symbolic positive "
                    "non-decreasing timestamps (never raises, rows keep their width, other rows untouched, same bound and "
                    "rate limit).",
        functions_encoded=["__redu_lcd_start_*/__redu_lcd_tick_* templates and LCDAnimate/LCDTick emission (IR)",
                           "Reduino.Displays.LCD.LCD.animate/tick (pysym)"],
        bounds={"geometry": "6x2 (quick) + 4x1, 8x4 (thorough)", "texts": "empty, 2 chars, exactly cols, cols+3",
                "speed_ms": "0 for termination, 150 for the rate limit", "passes": "bound+2 (non-looping) / <=8 (looping)"},
        assumptions=ASSUMPTIONS + ["clock readings < 2^40, non-decreasing; host timestamps positive"],
        stubs=["millis -> symbolic non-decreasing", "LiquidCrystal_I2C -> put events"],
    )


def replay(path):
    import json
    print(json.dumps(json.load(open(path)), indent=1)[:4000])
    return 0
