"""C15 - inputs: button edges, potentiometer reads and ultrasonic ranging behave as documented.

Button: firmware executed symbolically for N passes with the sampled levels s0 (setup), s1..sN symbolic;
solver-decided claims per path: one sample per pass before user events, on_click runs exactly when
s_k and not s_(k-1), every is_pressed() of pass k yields s_k; the real host Button fed the same signal (pysym)
produces the same click count whenever s0 is released.
Potentiometer: every read() is its own analogRead of the declared pin (differential against CPython).
Ultrasonic: the real emitted measurement helper over a two-call history from the initial state (which
reaches every reachable static state), with symbolic echo durations and a symbolic non-decreasing clock.
"""
from __future__ import annotations

import time

import z3

from .. import pysym
from ..common import Result, finish, run_obligations
from ..diffscript import ScriptDiff
from ..fwspec import FwSpec
from ..fwsym import BV, FP, F32
from ..hostcheck import claim, run_host_obligation
from ._script_common import ASSUMPTIONS

RNE = z3.RNE()
F64 = z3.Float64()

HDR = '''from Reduino import target
target("COM3", upload=False)
from Reduino.Communication import SerialMonitor
from Reduino.Utils import sleep
from Reduino.Sensors import Button, Potentiometer, Ultrasonic
from Reduino.Actuators import Led
mon = SerialMonitor(9600, "COM3")
'''

BUTTON_SCRIPTS = {
    "click_and_two_reads": HDR + 'def clicked():\n    mon.write("K")\nbtn = Button(2, on_click=clicked)\nwhile True:\n'
                                 '    mon.write(btn.is_pressed())\n    sleep(1)\n    mon.write(btn.is_pressed())\n',
    "click_only": HDR + 'def clicked():\n    mon.write("K")\nbtn = Button(2, on_click=clicked)\nwhile True:\n    sleep(1)\n',
    "no_callback": HDR + 'btn = Button(2)\nwhile True:\n    mon.write(btn.is_pressed())\n',
    "read_in_branch": HDR + 'def clicked():\n    mon.write("K")\nbtn = Button(4, on_click=clicked)\nwhile True:\n'
                            '    if btn.is_pressed():\n        mon.write(btn.is_pressed())\n    else:\n        mon.write(7)\n',
    "kw_pin": HDR + 'def clicked():\n    mon.write("K")\nbtn = Button(pin=3, on_click=clicked)\nwhile True:\n    mon.write(btn.is_pressed())\n',
    "declared_in_loop": HDR + 'def clicked():\n    mon.write("K")\nwhile True:\n    btn = Button(2, on_click=clicked)\n    mon.write(btn.is_pressed())\n',
}


def _lines(events):
    """Split the raw firmware events into passes; per pass: list of items ('read', pin, var) | ('line', pieces) | ('other', kind)."""
    passes = []
    cur = None
    line = []
    setup = []
    for ev in events:
        if ev[0] == "marker":
            cur = [] if ev[1] == "loop" else None
            if ev[1] == "loop":
                passes.append(cur)
            continue
        tgt = cur if cur is not None else setup
        if ev[0] == "ser":
            p = ev[1]
            if p[0] == "c" and isinstance(p[1], BV) and p[1].concrete and p[1].v == 10:
                tgt.append(("line", line))
                line = []
            else:
                line.append(p)
        elif ev[0] == "digitalRead":
            tgt.append(("read", ev[1].v if ev[1].concrete else None, ev[2]))
        elif ev[0] in ("pinMode", "serial_begin"):
            continue
        else:
            tgt.append(("other", ev[0]))
    return setup, passes


def _bit(v):
    """z3 Bool (or python bool) 'sample is HIGH' from the recorded digitalRead value."""
    if isinstance(v, BV):
        if v.concrete:
            return v.v == 1
        return v.v == z3.BitVecVal(1, v.w)
    return bool(v)


def _b(x):
    return x if z3.is_expr(x) else z3.BoolVal(bool(x))


def button_analyse(pin, has_callback, in_loop=False):
    def analyse(events, ctx):
        setup, passes = _lines(events)
        claims = []
        s_prev = None
        for it in setup:
            if it[0] == "read" and it[1] == pin:
                s_prev = _bit(it[2])
        if s_prev is None:
            if not in_loop:
                claims.append(("button level is sampled in setup()", True))
            s_prev = False     # declared in the loop: prev starts released
        for k, items in enumerate(passes, 1):
            reads = [i for i, it in enumerate(items) if it[0] == "read" and it[1] == pin]
            claims.append((f"pass {k}: button sampled exactly once", len(reads) != 1))
            if len(reads) != 1:
                return claims
            claims.append((f"pass {k}: sampling precedes every user event", reads[0] != 0))
            s_k = _bit(items[reads[0]][2])
            clicks = 0
            for it in items:
                if it[0] == "line":
                    pcs = it[1]
                    if len(pcs) == 1 and pcs[0][0] == "c" and isinstance(pcs[0][1], BV) and pcs[0][1].concrete and pcs[0][1].v == ord("K"):
                        clicks += 1
                    elif len(pcs) == 1 and pcs[0][0] == "int":
                        v = pcs[0][1]
                        want = z3.If(_b(s_k), z3.BitVecVal(1, v.w), z3.BitVecVal(0, v.w))
                        if v.concrete and not z3.is_expr(s_k):
                            bad = v.v not in ((1,) if s_k else (0,)) and v.v != 7
                            if v.v == 7:
                                bad = False
                        else:
                            bad = z3.And(v.z() != want, v.z() != z3.BitVecVal(7, v.w))
                        claims.append((f"pass {k}: is_pressed() returns the pass's sample", bad))
            if has_callback:
                edge = z3.And(_b(s_k), z3.Not(_b(s_prev)))
                claims.append((f"pass {k}: on_click runs exactly once per released-to-pressed transition",
                               z3.Not(edge == z3.BoolVal(clicks == 1)) if clicks <= 1 else True))
            else:
                claims.append((f"pass {k}: no callback output", clicks != 0))
            s_prev = s_k
        return claims
    return analyse


def host_button_matches(n):
    """Real host Button (pysym) fed s1..sn with on_click: click count == number of rising edges from 'released' -
    the same count the firmware claims above give for s0 = released."""
    def body(hw):
        S = hw.load("Reduino.Sensors")
        sig = [pysym.sym_bool(f"s{i}") for i in range(1, n + 1)]
        clicks = []
        taken = []

        def provider():
            # the k-th sample of the signal; a model that samples more often than once per call runs off its end
            taken.append(1)
            return sig[len(taken) - 1] if len(taken) <= n else False
        b = S.Button(2, on_click=lambda: clicks.append(1), state_provider=provider)
        for _ in range(n):
            b.is_pressed()
        claim("every is_pressed() takes exactly one sample of the signal", len(taken) == n)
        prev = z3.BoolVal(False)
        edges = z3.BitVecVal(0, 64)
        for s in sig:
            sz = pysym.zbool(s)
            edges = edges + z3.If(z3.And(sz, z3.Not(prev)), z3.BitVecVal(1, 64), z3.BitVecVal(0, 64))
            prev = sz
        claim("host click count equals the rising-edge count the firmware implements", edges == len(clicks))
    return body


# ------------------------------------------------------------------ ultrasonic
ULTRA_SRC = HDR + 'u = Ultrasonic(7, 8)\nwhile True:\n    d = u.measure_distance()\n    mon.write(d)\n'
ULTRA_SRC_KW = HDR + 'u = Ultrasonic(trig=5, echo=6, sensor="HC-SR04")\nwhile True:\n    mon.write(u.measure_distance())\n'
ULTRA_SRC_TWO_PRINTS = HDR + 'u = Ultrasonic(7, 8)\nwhile True:\n    mon.write(u.measure_distance())\n    mon.write(u.measure_distance())\n'
ULTRA_SRC_TWO = HDR + 'u = Ultrasonic(7, 8)\nwhile True:\n    a = u.measure_distance()\n    b = u.measure_distance()\n    mon.write(a)\n    mon.write(b)\n'


ULTRA_SRC_TWO_SENSORS = HDR + ('front = Ultrasonic(7, 8)\nrear = Ultrasonic(5, 6)\nwhile True:\n    mon.write(front.measure_distance())\n'
                               '    mon.write(rear.measure_distance())\n')


def ultra_two_sensors_analyse(events, ctx):
    """Two sensors measured alternately: the trace is cut at the printed results (one call each), the calls of each
    sensor are put together and analysed as that sensor's own history - a sensor never reports the other's reading."""
    segments, cur = [], []
    for ev in events:
        cur.append(ev)
        if ev[0] == "ser" and ev[1][0] == "c" and (ev[1][1] == 10 or getattr(ev[1][1], "v", None) == 10):
            segments.append(cur)
            cur = []
    claims = [("both sensors measured in every pass", len(segments) % 2 != 0 or not segments)]
    for k, (name, trig, echo) in enumerate((("front", 7, 8), ("rear", 5, 6))):
        own = [e for seg in segments[k::2] for e in seg]
        other_pins = (5, 6) if name == "front" else (7, 8)
        for e in own:
            if e[0] in ("digitalWrite", "pulseIn") and e[1].concrete and e[1].v in other_pins:
                claims.append((f"{name}: a measurement touches only its own pins", True))
        for cname, bad in [(c[0], c[1:]) for c in ultra_analyse(trig, echo)(own, ctx)]:
            claims.append((f"{name}: {cname}",) + tuple(bad))
    return claims


def _u64(v):
    if isinstance(v, BV):
        return z3.BitVecVal(v.v, 64) if v.concrete else (z3.ZeroExt(64 - v.w, v.v) if v.w < 64 else v.v)
    return z3.BitVecVal(int(v), 64)


def ultra_analyse(trig, echo, calls_per_pass=1):
    def analyse(events, ctx):
        claims = []
        # walk: split into calls by printed result lines
        triggers = []          # per trigger: (lower bound of its instant, index)
        clock_readings = []    # (event index, z3 value)
        pend = z3.BitVecVal(0, 64)
        results = []           # printed floats
        durations = []         # per trigger: duration term
        timeline = []          # ('trig', i) | ('now', term) | ('dur', term) | ('print', fp)
        for ev in events:
            k = ev[0]
            if k == "millis":
                timeline.append(("now", _u64(ev[1])))
            elif k == "delay":
                timeline.append(("delay", _u64(ev[1])))
            elif k == "digitalWrite" and ev[1].concrete and ev[1].v == trig and ev[2].concrete and ev[2].v == 1:
                timeline.append(("trig",))
            elif k == "pulseIn":
                ok_pin = ev[1].concrete and ev[1].v == echo
                claims.append(("echo is timed on the declared echo pin", not ok_pin))
                timeline.append(("dur", _u64(ev[3])))
            elif k == "ser" and ev[1][0] == "flt":
                timeline.append(("print", ev[1][1]))
        # group by printed results (one print per call)
        calls = []
        cur = []
        for t in timeline:
            if t[0] == "print":
                calls.append((cur, t[1]))
                cur = []
            else:
                cur.append(t)
        last_good = None      # z3 FP32->64 term of the last good distance, python None = no reading yet
        have = z3.BoolVal(False)
        # token abstraction of the float values (fast over-approximating claim): equal simplified terms -> same token
        toks = {}
        keep = []

        def tok(t):
            t = z3.simplify(t)
            k = t.get_id()
            if k not in toks:
                toks[k] = z3.BitVec(f"__tok{len(toks)}", 40)
                keep.append(t)
            return toks[k]
        C400 = z3.FPVal(400.0, F64)
        last_good_tok = None
        prev_trigger_upper = None   # first clock reading after the previous trigger (z3 term) or None
        awaiting_reading = False
        for ci, (items, printed) in enumerate(calls, 1):
            ntr = 0
            last_now = None
            first_good = None
            call_durs = []
            for t in items:
                if t[0] == "now":
                    last_now = t[1]
                    if awaiting_reading:
                        prev_trigger_upper = t[1]
                        awaiting_reading = False
                elif t[0] == "trig":
                    ntr += 1
                    if prev_trigger_upper is not None and last_now is not None:
                        gap_bad = z3.And(prev_trigger_upper != z3.BitVecVal(0, 64),
                                         z3.ULT(last_now - prev_trigger_upper, z3.BitVecVal(60, 64)))
                        claims.append((f"call {ci} trigger {ntr}: at least 60 ms since the previous trigger (clock running)", gap_bad))
                    elif prev_trigger_upper is None and awaiting_reading:
                        claims.append((f"call {ci} trigger {ntr}: re-triggered with no clock reading since the previous trigger", True))
                    awaiting_reading = True
                    if last_now is None:
                        claims.append((f"call {ci}: trigger without reading the clock", True))
                elif t[0] == "dur":
                    call_durs.append(t[1])
            claims.append((f"call {ci}: at most three trigger pulses", ntr > 3))
            claims.append((f"call {ci}: one echo measurement per trigger", len(call_durs) != ntr))
            # expected result
            pf = printed.z() if isinstance(printed, FP) else z3.FPVal(float(printed), F64)
            if isinstance(printed, FP) and printed.k == 32:
                pf = z3.fpFPToFP(RNE, pf, F64)
            zero = z3.BitVecVal(0, 64)
            expect = None
            # retries only after timeouts; the first non-zero echo ends the call
            for i, d in enumerate(call_durs):
                if i < len(call_durs) - 1:
                    claims.append((f"call {ci}: retries only after a timed-out echo", d != zero))
            if call_durs:
                dlast = call_durs[-1]
                d32 = z3.fpUnsignedToFP(RNE, dlast, F32)
                ref32 = z3.fpDiv(RNE, z3.fpMul(RNE, d32, z3.FPVal(0.0343, F32)), z3.FPVal(2.0, F32))
                p32 = pf if isinstance(printed, FP) else None       # (binary64 image of the printed binary32 value)
                ref = z3.fpFPToFP(RNE, ref32, F64)
                if p32 is not None:
                    # the same value spelt the way the lowered code computes it (x/2 may be emitted as x*0.5)
                    alt = z3.fpFPToFP(RNE, z3.fpMul(RNE, z3.fpMul(RNE, d32, z3.FPVal(0.0343, F32)), z3.FPVal(0.5, F32)), F64)
                    if z3.simplify(p32).eq(z3.simplify(alt)):
                        ref = alt
                good = dlast != zero
                fallback = z3.If(have, last_good if last_good is not None else z3.FPVal(400.0, F64), z3.FPVal(400.0, F64))
                want = z3.If(good, ref, fallback)
                tol = z3.fpAdd(RNE, z3.FPVal(1e-3, F64), z3.fpMul(RNE, z3.FPVal(1e-4, F64), z3.fpAbs(want)))
                bad = z3.Not(z3.fpLEQ(z3.fpAbs(z3.fpSub(RNE, pf, want)), tol))
                name = f"call {ci}: result is echo*0.0343/2 of the first good echo, else the last good reading, else 400"
                if p32 is not None:
                    fb_tok = z3.If(have, last_good_tok, tok(C400)) if last_good_tok is not None else tok(C400)
                    want_tok = z3.If(good, tok(ref), fb_tok)
                    claims.append((name, tok(p32) != want_tok, bad))
                    last_good_tok = z3.If(good, tok(ref), last_good_tok if last_good_tok is not None else tok(C400))
                else:
                    claims.append((name, bad))
                claims.append((f"call {ci}: gives up only after three attempts", z3.And(z3.Not(good), z3.BoolVal(ntr != 3))))
                last_good = z3.If(good, ref, last_good) if last_good is not None else z3.If(good, ref, z3.FPVal(400.0, F64))
                have = z3.Or(have, good)
            else:
                claims.append((f"call {ci}: no measurement attempted", True))
        claims.append(("every call printed a result", len(calls) == 0))
        return claims
    return analyse


POT_SCRIPTS = {
    "two_reads": HDR + 'pot = Potentiometer("A0")\nwhile True:\n    a = pot.read()\n    b = pot.read()\n    mon.write(a - b)\n    mon.write(a)\n',
    "read_in_expr": HDR + 'pot = Potentiometer("A3")\nwhile True:\n    mon.write(pot.read() + pot.read())\n',
    "read_in_cond": HDR + 'pot = Potentiometer("A1")\nwhile True:\n    if pot.read() > 500:\n        mon.write(pot.read())\n    else:\n        mon.write(0)\n',
    "two_pots": HDR + 'p = Potentiometer("A0")\nq = Potentiometer("A2")\nwhile True:\n    mon.write(p.read())\n    mon.write(q.read())\n    mon.write(p.read())\n',
    "tuple_two_reads": HDR + 'pot = Potentiometer("A0")\nwhile True:\n    first, second = pot.read(), pot.read()\n    mon.write(second - first)\n',
    "tuple_two_reads_declared": HDR + 'pot = Potentiometer("A0")\nfirst = 0\nsecond = 0\nwhile True:\n    first, second = pot.read(), pot.read()\n    mon.write(second - first)\n',
    "kw_pin": HDR + 'pot = Potentiometer(pin="A4")\nwhile True:\n    mon.write(pot.read())\n',
    "read_in_loop": HDR + 'pot = Potentiometer("A0")\nwhile True:\n    for i in range(2):\n        mon.write(pot.read())\n',
    "read_in_fn": HDR + 'pot = Potentiometer("A0")\ndef level():\n    return pot.read() // 4\nwhile True:\n    mon.write(level())\n    mon.write(level())\n',
}


def _work(item):
    kind = item[0]
    if kind == "button":
        _, oid, src, pin, cb, passes, in_loop = item
        return FwSpec(oid, src, button_analyse(pin, cb, in_loop), passes=passes,
                      describe="button sampling/edge/is_pressed claims over symbolic sampled levels").run()
    if kind == "ultra":
        _, oid, src, trig, echo, passes = item[:6]
        wrap = len(item) > 6 and item[6]
        analyse = ultra_two_sensors_analyse if trig is None else ultra_analyse(trig, echo)
        return FwSpec(oid, src, analyse, passes=passes, max_paths=3000, budget_s=600, clock_wrap=wrap,
                      describe="ultrasonic helper over a call history with symbolic echoes and clock"
                               + (" (free-running modular millisecond counter: wrap-around included)" if wrap else "")).run()
    if kind == "pot":
        _, oid, src, passes = item
        return ScriptDiff(oid, src, passes=passes).run()
    if kind == "host":
        _, oid, n = item
        return run_host_obligation(oid, host_button_matches(n), max_paths=5000)
    raise ValueError(kind)


def run(tier, seed, only=None):
    t0 = time.time()
    items = []
    N = 3 if tier == "quick" else 4
    for name, src in BUTTON_SCRIPTS.items():
        pin = {"read_in_branch": 4, "kw_pin": 3}.get(name, 2)
        items.append(("button", f"button/{name}/N={N}", src, pin, name != "no_callback", N, name == "declared_in_loop"))
    items.append(("host", f"button/host_click_count/n={N + 1}", N + 1))
    for name, src in POT_SCRIPTS.items():
        items.append(("pot", f"pot/{name}", src, 2))
    items.append(("ultra", "ultrasonic/two_calls", ULTRA_SRC, 7, 8, 2))
    items.append(("ultra", "ultrasonic/keywords", ULTRA_SRC_KW, 5, 6, 1))
    items.append(("ultra", "ultrasonic/two_sensors", ULTRA_SRC_TWO_SENSORS, None, None, 1 if tier == "quick" else 2))
    # two calls in one pass with the millisecond counter allowed to wrap between any two readings
    items.append(("ultra", "ultrasonic/wrap_two_calls_one_pass", ULTRA_SRC_TWO_PRINTS, 7, 8, 1, True))
    if tier == "thorough":
        items.append(("ultra", "ultrasonic/three_calls", ULTRA_SRC, 7, 8, 3))
    if only:
        items = [i for i in items if only in i[1]]
    results = run_obligations(items, _work)
    return finish(
        "C15", "other", tier, seed, results, t0,
        explanation="Button: emitted firmware executed symbolically over N passes with symbolic sampled levels; per feasible path "
                    "z3 decides the sampling discipline (exactly one digitalRead per pass, first event of the pass), the edge "
                    "rule for on_click and the value of every is_pressed(); the real host Button (pysym) is shown to count "
                    "exactly those rising edges.  Potentiometer: differential against CPython (every read() is a fresh analog "
                    "read of the declared pin).  Ultrasonic: the real emitted measurement helper over a 2-call (thorough: "
                    "3-call) history from the initial state - which reaches every reachable static state - with symbolic echo "
                    "durations and a symbolic non-decreasing clock advanced by delay() and by pulseIn (>= echo time, >= the "
                    "30 ms timeout when it times out): result formula, <= 3 triggers, >= 60 ms between triggers once the "
                    "clock is running, fallback to last good reading / 400.",
        functions_encoded=["emitted ButtonPoll code and on_click call (IR)", "emitted __redu_ultrasonic_measure_<name>() (IR)",
                           "Reduino.Sensors.Button.Button.is_pressed (pysym)", "Potentiometer.read -> analogRead (IR vs host)"],
        bounds={"button passes": N, "ultrasonic calls": "2 (quick) / 3 (thorough)", "echo duration": "0..2^31-1 us",
                "clock": "millis < 2^40, non-decreasing"},
        assumptions=ASSUMPTIONS + ["pulseIn blocks for at least the returned echo time, and for the 30 ms timeout when it returns 0",
                                   "result compared with rel 1e-4 / abs 1e-3 tolerance in binary64"],
        stubs=["digitalRead/pulseIn/millis -> symbolic", "delay advances the clock lower bound"],
    )


def replay(path):
    import json
    print(json.dumps(json.load(open(path)), indent=1)[:4000])
    return 0
