"""C17 - LCD text: same characters in the same cells on device and host, never off-row.

text/*      differential: the emitted LCD helper calls (lowered IR, mock LiquidCrystal keeps every put as an
            event) against the real host LCD class (pysym): the cell matrix after every batch of LCD calls must be
            identical; any put outside the display is a violation on its own.  Column/row are run-time
            (symbolic), geometry/text length/alignment/clear flag enumerated.
progress/*  firmware spec (filled cells == clamp(value)*width/max, bar inside width, monotone over two calls)
            and host arithmetic (real LCD.progress with symbolic value: |filled - floor(v*w/m)| <= 1, equal when
            v*w is a multiple of m, saturation at both ends).
light/*     display/backlight/brightness sequences drive the backlight pin to 0 when off and to the last
            brightness when on (differential, per-pin levels); glyph uploads carry the host's eight 5-bit rows.
"""
from __future__ import annotations

import itertools
import time

import z3

from .. import pysym
from ..common import finish, run_obligations
from ..diffscript import ScriptDiff
from ..fwspec import FwSpec
from ..fwsym import BV
from ..hostcheck import claim, run_host_obligation
from ._script_common import ASSUMPTIONS

HDR = '''from Reduino import target
target("COM3", upload=False)
from Reduino.Core import analog_read
from Reduino.Utils import sleep
from Reduino.Displays import LCD
'''
ALPHA = "ABCDEFGHIJKLMNOPQRSTUVWXYZabcdefghijklmnopqrstuvwxyz0123456789"


def decl(wiring, cols, rows, backlight=None):
    if wiring == "i2c":
        return f"lcd = LCD(i2c_addr=0x27, cols={cols}, rows={rows})\n"
    bl = f", backlight_pin={backlight}" if backlight is not None else ""
    return f"lcd = LCD(rs=12, en=11, d4=5, d5=4, d6=3, d7=2, cols={cols}, rows={rows}{bl})\n"


def prefill(rows, cols):
    return "".join(f'lcd.line({r}, "{("xyzw"[r] * cols)}")\n' for r in range(rows))


def text_cases(tier):
    geoms = [(16, 2, "par"), (8, 1, "i2c"), (5, 2, "par"), (1, 1, "i2c")]
    if tier == "thorough":
        geoms += [(20, 4, "i2c"), (40, 2, "par"), (3, 4, "par"), (2, 2, "i2c"), (16, 4, "par")]
    out = []
    for cols, rows, wiring in geoms:
        lens = sorted({0, 1, max(1, cols // 2), cols, cols + 2})
        for L in lens:
            text = ALPHA[:L] if L <= len(ALPHA) else (ALPHA * 2)[:L]
            for align in ("left", "center", "right"):
                for clear in ((True, False) if (align != "center" or tier == "thorough") else (True,)):
                    if tier == "quick" and L in (1,) and align == "right" and not clear:
                        continue
                    base = HDR + decl(wiring, cols, rows) + prefill(rows, cols)
                    div_c = -(-1024 // cols)   # column stays in range 0..cols-1
                    div_r = -(-1024 // rows)   # row stays in range 0..rows-1
                    body = (f'while True:\n    c = analog_read("A0") // {div_c}\n    r = analog_read("A1") // {div_r}\n'
                            f'    lcd.write(c, r, "{text}", clear_row={clear}, align="{align}")\n')
                    out.append((f"text/write/{cols}x{rows}{wiring}/len={L}/{align}/clear={clear}", base + body, 1))
            body = f'while True:\n    r = analog_read("A1") // {-(-1024 // rows)}\n    lcd.line(r, "{text}", align="right")\n'
            out.append((f"text/line/{cols}x{rows}{wiring}/len={L}", HDR + decl(wiring, cols, rows) + prefill(rows, cols) + body, 1))
        t1, t2 = ALPHA[:cols + 1], ALPHA[10:10 + max(1, cols // 2)]
        out.append((f"text/message/{cols}x{rows}{wiring}", HDR + decl(wiring, cols, rows) + prefill(rows, cols) +
                    f'while True:\n    lcd.message("{t1}", "{t2}", top_align="center", bottom_align="right")\n', 1))
        out.append((f"text/message_top_only/{cols}x{rows}{wiring}", HDR + decl(wiring, cols, rows) + prefill(rows, cols) +
                    f'while True:\n    lcd.message("{t2}", clear_rows=False)\n', 1))
        out.append((f"text/clear/{cols}x{rows}{wiring}", HDR + decl(wiring, cols, rows) + prefill(rows, cols) +
                    'while True:\n    lcd.clear()\n    sleep(1)\n    lcd.line(0, "Q")\n', 1))
        out.append((f"text/sequence/{cols}x{rows}{wiring}", HDR + decl(wiring, cols, rows) +
                    f'while True:\n    c = analog_read("A0") // {-(-1024 // cols)}\n    lcd.write(c, 0, "{t2}", clear_row=False)\n'
                    f'    sleep(1)\n    lcd.write(0, 0, "{t1}", clear_row=False, align="right")\n    sleep(1)\n    lcd.line(0, "z", align="center", clear_row=False)\n', 2))
    # spellings of the alignment keyword the host accepts (it lower-cases the label): same cells on both sides, or rejected
    for spelled in ("Center", "RIGHT", "Left", "cEnTeR", "Right"):
        for cols, rows, wiring in ((16, 2, "par"), (20, 4, "i2c")):
            base = HDR + decl(wiring, cols, rows) + prefill(rows, cols)
            out.append((f"text/align_spelling/{spelled}/line/{cols}x{rows}{wiring}", base +
                        f'while True:\n    lcd.line(0, "abc", align="{spelled}")\n', 1))
            out.append((f"text/align_spelling/{spelled}/write/{cols}x{rows}{wiring}", base +
                        f'while True:\n    lcd.write(1, 1, "abc", align="{spelled}")\n', 1))
            out.append((f"text/align_spelling/{spelled}/message/{cols}x{rows}{wiring}", base +
                        f'while True:\n    lcd.message("ab", "cd", top_align="{spelled}", bottom_align="{spelled}")\n', 1))
    # empty texts: the host clears / pads exactly as for any other text
    for cols, rows, wiring in ((16, 2, "par"), (8, 1, "i2c"), (20, 4, "i2c")):
        base = HDR + decl(wiring, cols, rows) + prefill(rows, cols)
        out.append((f"text/empty/message_top/{cols}x{rows}{wiring}", base + 'while True:\n    lcd.message("", "x")\n', 1))
        out.append((f"text/empty/message_bottom/{cols}x{rows}{wiring}", base + 'while True:\n    lcd.message("x", "")\n', 1))
        out.append((f"text/empty/message_both_keep/{cols}x{rows}{wiring}", base + 'while True:\n    lcd.message("", "", clear_rows=False)\n', 1))
        out.append((f"text/empty/line/{cols}x{rows}{wiring}", base + 'while True:\n    lcd.line(0, "")\n', 1))
        out.append((f"text/empty/write/{cols}x{rows}{wiring}", base + 'while True:\n    lcd.write(1, 0, "", clear_row=True)\n', 1))
    # keyword / positional call shapes
    out.append(("text/write_kw/16x2", HDR + decl("par", 16, 2) + 'while True:\n    lcd.write(3, 1, "kw", align="center", clear_row=False)\n', 1))
    out.append(("text/line_kw/16x2", HDR + decl("par", 16, 2) + 'while True:\n    lcd.line(1, "kw", clear_row=False, align="right")\n', 1))
    return out


def _fill_count(row_cells, fill):
    return sum(1 for p in row_cells if p[0] == "c" and p[1] == fill)


def progress_fw(cols, max_value, width, style_char):
    def analyse(events, ctx):
        puts = {}
        reads = []
        snaps = []
        off = []
        for ev in events:
            if ev[0] == "analogRead":
                reads.append(ev[2])
            elif ev[0] == "lcd_clear":
                puts = {}
            elif ev[0] == "lcd_put":
                r, c = ev[2], ev[3]
                if not (0 <= c < cols and 0 <= r < 2):
                    off.append((r, c))
                ch = ev[4][1]
                puts[(r, c)] = ch.v if isinstance(ch, BV) and ch.concrete else ch
            elif ev[0] == "delay":
                snaps.append(dict(puts))
        claims = [("progress never writes outside the display", bool(off))]
        W = cols if width is None else max(1, min(cols, width)) if width > 0 else cols
        counts = []
        for k, snap in enumerate(snaps):
            row = [snap.get((0, c), 32) for c in range(cols)]
            filled = sum(1 for x in row if x == style_char)
            counts.append(filled)
            v = reads[k]
            vz = z3.ZeroExt(64 - v.w, v.v) if not v.concrete else z3.BitVecVal(v.v, 64)
            vz = vz - z3.BitVecVal(100, 64)
            M = z3.BitVecVal(max_value, 64)
            cl = z3.If(vz < 0, z3.BitVecVal(0, 64), z3.If(vz > M, M, vz))
            want = (cl * z3.BitVecVal(W, 64)) / M
            claims.append((f"call {k + 1}: filled cells = clamp(value)*width/max", z3.BitVecVal(filled, 64) != want))
            claims.append((f"call {k + 1}: bar stays within its width", any(x == style_char for x in row[W:])))
        if len(counts) == 2 and len(reads) >= 2:
            a, b = reads[0], reads[1]
            az, bz = (z3.BitVecVal(x.v, 64) if x.concrete else z3.ZeroExt(64 - x.w, x.v) for x in (a, b))
            claims.append(("filled length is monotone in value", z3.And(z3.ULE(az, bz), z3.BoolVal(counts[0] > counts[1]))))
        return claims
    return analyse


class _Captured(Exception):
    """Raised by the round() stand-in: the symbolic fill count has been computed; the rendering is checked separately."""


class _CaptureStr(str):
    """The bar glyph: repeating it by the (symbolic) fill count hands that count over instead of forking on it."""

    def __mul__(self, n):
        if pysym.is_sym(n):
            raise _Captured(n)
        return str.__mul__(self, n)

    __rmul__ = __mul__


def _capture_fill(hw, lcd, *args, **kw):
    """Run the real LCD.progress up to the point where the bar is rendered (`glyph * filled`) and return the fill count as
    the engine's symbolic term - without the fork per concrete count that the string repetition would cause.  The
    glyph table of the class is replaced by instrumented strings for the duration of the call; however the count was
    computed (round(), int(), min() ...) it is the value the glyph is multiplied by."""
    L = hw.load("Reduino.Displays.LCD")
    cls = type(lcd)
    table = cls._PROGRESS_STYLES
    cls._PROGRESS_STYLES = {k: _CaptureStr(v) for k, v in table.items()}
    got = []
    try:
        lcd.progress(*args, **kw)
    except _Captured as c:
        got.append(c.args[0])
    finally:
        cls._PROGRESS_STYLES = table
    if got:
        return got[0]
    # the count was concrete on this path, or the bar is not built by repeating the glyph: read it off the row
    row = args[0]
    return lcd.buffer[row].count("#")


def _zi(x):
    return pysym.zint(x) if pysym.is_sym(x) else z3.BitVecVal(int(x), 64)


def _numeric_claims(filled, v, M, W):
    f, vz, Mz, Wz = _zi(filled), _zi(v), _zi(M), _zi(W)
    cl = z3.If(vz < 0, z3.BitVecVal(0, 64), z3.If(vz > Mz, Mz, vz))
    prod = cl * Wz
    dev = prod / Mz
    claim("fill count stays within the bar", z3.And(f >= 0, f <= Wz))
    claim("host and device bars differ by at most one cell", z3.And(f - dev <= 1, dev - f <= 1))
    claim("identical when value*width is a multiple of max_value", z3.Implies(z3.SRem(prod, Mz) == 0, f == dev))
    claim("saturates at 0", z3.Implies(vz <= 0, f == 0))
    claim("saturates at the bar width", z3.Implies(vz >= Mz, f == Wz))


def progress_host(cols, max_value, width):
    """numeric part, concrete max/width, symbolic value"""
    def body(hw):
        D = hw.load("Reduino.Displays")
        lcd = D.LCD(i2c_addr=0x27, cols=cols, rows=2)
        v = pysym.sym_int("value", -5, max_value + 5)
        filled = _capture_fill(hw, lcd, 0, v, max_value=max_value, width=width, style="hash")
        W = cols if width is None else max(1, min(cols, width))
        claim("a fill count is computed", filled is not None)
        if filled is not None:
            _numeric_claims(filled, v, max_value, W)
    return body


def progress_host_symbolic(bits):
    """numeric part with value, max_value and width all symbolic (the divisor is a solver variable)"""
    def body(hw):
        D = hw.load("Reduino.Displays")
        lcd = D.LCD(i2c_addr=0x27, cols=40, rows=2)
        hi = (1 << bits) - 1
        v = pysym.sym_int("value", 0, hi)
        M = pysym.sym_int("max_value", 1, hi)
        W = pysym.sym_int("width", 1, 40)
        filled = _capture_fill(hw, lcd, 0, v, max_value=M, width=W, style="hash")
        claim("a fill count is computed", filled is not None)
        if filled is not None:
            _numeric_claims(filled, v, M, W)
    return body


def progress_host_render(cols, width):
    """rendering part: whatever count in 0..width the numeric part yields, the row shows exactly that many glyphs"""
    def body(hw):
        D = hw.load("Reduino.Displays")
        L = hw.load("Reduino.Displays.LCD")
        lcd = D.LCD(i2c_addr=0x27, cols=cols, rows=2)
        W = cols if width is None else max(1, min(cols, width))
        k = pysym.sym_int("filled", 0, W)
        used = []

        def stub_round(x, *a):
            used.append(1)
            return k
        L.round = stub_round
        try:
            lcd.progress(0, 3, max_value=7, width=width, style="hash")
        finally:
            del L.round
        row = lcd.buffer[0]
        if not used:
            return      # the count is not produced by round(): the numeric/rendering split does not apply (no claim)
        claim("the row shows exactly `filled` glyphs", _zi(k) == row.count("#"))
        claim("the glyphs are the first cells of the row", row[:row.count("#")] == "#" * row.count("#"))
        claim("row keeps the display width", len(row) == cols)
        claim("other row untouched", lcd.buffer[1] == " " * cols)
    return body


def progress_host_monotone(cols, max_value, width):
    def body(hw):
        D = hw.load("Reduino.Displays")
        lcd = D.LCD(i2c_addr=0x27, cols=cols, rows=2)
        a = pysym.sym_int("a", 0, max_value)
        b = pysym.sym_int("b", 0, max_value)
        fa = _capture_fill(hw, lcd, 0, a, max_value=max_value, width=width, style="hash")
        fb = _capture_fill(hw, lcd, 1, b, max_value=max_value, width=width, style="hash")
        claim("host bar is monotone in value", z3.Implies(_zi(a) <= _zi(b), _zi(fa) <= _zi(fb)))
    return body


def light_cases(tier):
    P = HDR + decl("par", 16, 2, backlight=9)
    I = HDR + decl("i2c", 16, 2)
    seqs = {
        "brightness_rt": 'lcd.brightness(analog_read("A0") // 4)',
        "off_then_brightness": "lcd.backlight(False)\n    sleep(1)\n    lcd.brightness(77)",
        "display_off_on": "lcd.display(False)\n    sleep(1)\n    lcd.brightness(10)\n    sleep(1)\n    lcd.display(True)",
        "backlight_rt": 'lcd.backlight(analog_read("A0") > 512)\n    sleep(1)\n    lcd.brightness(200)',
        "display_rt": 'lcd.display(analog_read("A0") > 512)\n    sleep(1)\n    lcd.brightness(5)\n    sleep(1)\n    lcd.backlight(True)',
        "brightness_bounds": "lcd.brightness(0)\n    sleep(1)\n    lcd.brightness(255)\n    sleep(1)\n    lcd.backlight(False)\n    sleep(1)\n    lcd.backlight(True)",
    }
    out = []
    for name, body in seqs.items():
        out.append((f"light/parallel/{name}", P + "while True:\n    " + body + "\n", 2))
    out.append(("light/i2c/backlight", I + 'while True:\n    lcd.backlight(False)\n    sleep(1)\n    lcd.backlight(True)\n    sleep(1)\n    lcd.display(False)\n', 1))
    out.append(("light/i2c/backlight_rt", I + 'while True:\n    lcd.backlight(analog_read("A0") > 100)\n', 2))
    out.append(("light/glyph", P + "while True:\n    lcd.glyph(0, [0, 2, 5, 8, 8, 5, 2, 0])\n    lcd.glyph(7, [255, 32, 31, 64, 1, 2, 3, 4])\n", 1))
    out.append(("light/glyph_name", P + "bm = [1, 2, 3, 4, 5, 6, 7, 40]\nwhile True:\n    lcd.glyph(3, bm)\n", 1))
    return out


def _work(item):
    kind = item[0]
    if kind == "diff":
        _, oid, src, passes = item
        return ScriptDiff(oid, src, passes=passes, max_block_visits=400, budget_s=300).run()
    if kind == "pfw":
        _, oid, cols, M, W, style, ch = item
        wtxt = "" if W is None else f", width={W}"
        src = (HDR + decl("i2c", cols, 2) + f'while True:\n    v = analog_read("A0") - 100\n'
               f'    lcd.progress(0, v, max_value={M}{wtxt}, style="{style}")\n    sleep(1)\n')
        return FwSpec(oid, src, progress_fw(cols, M, W, ch), passes=2, max_block_visits=400,
                      describe="progress bar arithmetic on the device").run()
    if kind == "phost":
        _, oid, cols, M, W = item
        return run_host_obligation(oid, progress_host(cols, M, W), max_paths=200, timeout_ms=120000,
                                   budget_s=240 if M <= 100 else 1500)
    if kind == "pmono":
        _, oid, cols, M, W = item
        return run_host_obligation(oid, progress_host_monotone(cols, M, W), max_paths=2000, timeout_ms=120000, budget_s=600)
    if kind == "psym":
        _, oid, bits = item
        return run_host_obligation(oid, progress_host_symbolic(bits), max_paths=200, timeout_ms=400000, budget_s=1500)
    if kind == "prender":
        _, oid, cols, W = item
        return run_host_obligation(oid, progress_host_render(cols, W), max_paths=2000, timeout_ms=60000, budget_s=300)
    raise ValueError(kind)


def run(tier, seed, only=None):
    t0 = time.time()
    items = [("diff",) + c for c in text_cases(tier)] + [("diff",) + c for c in light_cases(tier)]
    prog = [(16, 100, 12), (8, 7, None), (16, 10, 5)]
    if tier == "thorough":
        prog += [(20, 255, None), (40, 1023, None), (16, 3, 16), (5, 50, 9), (16, 1, None), (16, 2, 3)]
    for cols, M, W in prog:
        items.append(("pfw", f"progress/device/{cols}cols/max={M}/width={W}", cols, M, W, "hash", ord("#")))
        items.append(("phost", f"progress/host_vs_integer/{cols}cols/max={M}/width={W}", cols, M, W))
        items.append(("prender", f"progress/host_render/{cols}cols/width={W}", cols, W))
    sym_bits = 6 if tier == "quick" else 8
    items.append(("psym", f"progress/host_numeric/symbolic[value,max<2^{sym_bits},width<=40]", sym_bits))
    items.append(("pfw", "progress/device/block_style", 16, 100, None, "block", 255))
    items.append(("pmono", "progress/host_monotone/8cols/max=7", 8, 7, None))
    items.append(("diff", "progress/label/16x2", HDR + decl("i2c", 16, 2) +
                  'while True:\n    lcd.progress(1, 50, max_value=100, width=8, label="Load", style="pipe")\n', 1))
    for cols, rows, wiring in ((8, 2, "i2c"), (20, 4, "par")):
        for extra in (-1, 0, 1):
            lab = (ALPHA * 2)[:cols + extra]
            items.append(("diff", f"progress/label_len={cols + extra}/{cols}x{rows}{wiring}", HDR + decl(wiring, cols, rows) + prefill(rows, cols) +
                          f'while True:\n    lcd.progress(0, 3, max_value=8, width=4, label="{lab}", style="dot")\n', 1))
            items.append(("diff", f"progress/label_len={cols + extra}_empty_bar/{cols}x{rows}{wiring}", HDR + decl(wiring, cols, rows) + prefill(rows, cols) +
                          f'while True:\n    lcd.progress(0, 0, max_value=8, label="{lab}")\n', 1))
    items.append(("diff", "progress/label_overflow/8x2", HDR + decl("i2c", 8, 2) +
                  'while True:\n    lcd.progress(0, 8, max_value=8, width=8, label="ABCDEF", style="dot")\n', 1))
    if only:
        items = [i for i in items if only in i[1]]
    results = run_obligations(items, _work)
    return finish(
        "C17", "other", tier, seed, results, t0,
        explanation="The real LCD helper templates as instantiated in emitted sketches are lowered to IR and run on a mock "
                    "LiquidCrystal that records every character put with its (row, col); the real host LCD runs under pysym. "
                    "Column and row are run-time symbolic values, geometry/wiring/text length/alignment/clear flag are "
                    "enumerated; after every batch of LCD calls the cell matrices must be equal (z3 decides path feasibility "
                    "and positions; any put outside rows x cols is reported on its own).  Progress bars: integer arithmetic of "
                    "the device decided against clamp(v)*w/m, the host's IEEE formula against the same integer reference "
                    "(|delta| <= 1, equal on multiples, saturation, monotone).  Backlight/brightness/display sequences are "
                    "compared as per-pin level traces; glyph uploads as eight 5-bit rows.",
        functions_encoded=["__redu_lcd_clear_row/__redu_lcd_write_aligned/__redu_lcd_progress (IR)", "LCD action emitters (IR)",
                           "Reduino.Displays.LCD.LCD.write/line/message/clear/progress/display/backlight/brightness/glyph (pysym)"],
        bounds={"geometries": "quick: 16x2, 8x1, 5x2, 1x1; thorough adds 20x4, 40x2, 3x4, 2x2, 16x4",
                "text lengths": "0, 1, cols/2, cols, cols+2", "col": "0..cols-1 (run-time, in range as the property requires)", "row": "0..rows-1 (run-time)",
                "progress": "value run-time (-100..923 device / -5..max+5 host), max/width literal"},
        assumptions=ASSUMPTIONS + ["texts are literals (a rendered number inside LCD text makes length() imprecise and is reported "
                                   "inconclusive)", "the host block glyph U+2588 corresponds to device character 0xFF",
                                   "LCD declared before any serial output (hoisted init is not an ordering difference)"],
        stubs=["LiquidCrystal/LiquidCrystal_I2C -> put/clear/cursor events with concrete cell positions (forked by the solver)"],
    )


def replay(path):
    import json
    print(json.dumps(json.load(open(path)), indent=1)[:4000])
    return 0
