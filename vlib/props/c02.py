"""C02 - type inference is sound: no value is narrowed or re-typed on the device."""
from __future__ import annotations

from .. import skeletons
from ._script_common import run_family


def run(tier, seed, only=None):
    return run_family(
        "C02", "translation_validation", tier, seed, only, skeletons.types_family(tier),
        passes=2,
        budget_s=240 if tier == "quick" else 900,
        explanation="Type-flow skeletons: the same name receives int/float/bool/str values in every order over top level, "
                    "branches, loops, functions and call sites; values are run-time (sensor-derived), so 'a float flows into "
                    "x' is a feasible-path fact.  At every observation (serial print of the variable / function result) the "
                    "firmware value must equal CPython's value: z3 decides trace inequality per path pair; a narrowing "
                    "(float stored in int) yields a model, replayed on g++ and stock CPython.",
        extra_assumptions=["numbers are compared by value: printing an int-valued float as 2.00 instead of 2 is not a "
                           "difference (widening is what the property asks for)"])


def replay(path):
    import json
    print(json.dumps(json.load(open(path)), indent=1)[:4000])
    return 0
