"""C07 - every line is accounted for and stays in the block Python assigns it to.

blocks/*   symbolic indentation vectors: lines are built from solver-chosen (indent, kind) pairs (kind: statement,
           blank, whitespace-only, comment-only, and for the structure collectors elif/else/except headers with an
           optional trailing comment) and pushed through the REAL _collect_block/_collect_if_structure/
           _collect_try_structure (pysym); on every path the statements the real function assigns to the block
           must be exactly those Python's rule assigns (a statement line dedented to <= the header's column ends
           the block; blank, whitespace-only and comment-only lines never do).
headers/*  z3 regular-expression inclusion: for each block-header recogniser the live pattern
           (parser.RE_*.pattern) composed with the pre-processing its dispatch site applies must accept every line
           of the spec language "header + optional whitespace + optional trailing comment".
comment/*  CrossHair on the real _strip_inline_comment against a reference scanner.
accounted/* every statement kind placed in every block context (if/elif/else arms, nested loops, helper functions with
           and without docstrings, try bodies, the prologue): the firmware's symbolic trace must contain exactly the
           events CPython's symbolic trace contains (lock-step F-vs-H differential, solver-decided per path pair), so a
           statement that silently disappears - or lands in another block - is a trace difference.
layout/*   the real pipeline on meaning-preserving re-layouts of skeleton scripts (comments at any column, trailing
           comments on every line incl. headers, blank/whitespace-only lines, indent unit 1..8 / tabs, trailing
           whitespace, optional spaces): emitted text must be byte-identical.  With REDUINO_VERIF=1 the parser's
           ignored-line log must contain only host-only statements.
"""
from __future__ import annotations

import os
import re
import time

import z3

from .. import lower, pysym, skeletons
from ..common import Result, finish, run_obligations
from ..crosshair_run import run_crosshair
from ..hostcheck import claim, run_host_obligation
from ..lower import VERIF
from ..pysym import sym_int

KINDS = ("stmt", "blank", "spaces", "comment")


def mk_line(indent, kind, k, unit=" "):
    if kind == "stmt":
        return unit * indent + f"s{k} = {k}"
    if kind == "blank":
        return ""
    if kind == "spaces":
        return unit * indent
    return unit * indent + f"# c{k}"


def reference_block(lines_meta, base):
    """Python's rule on (indent, kind) meta lines following a header at column `base`: statement indices in the block."""
    inside = []
    for i, (ind, kind) in enumerate(lines_meta):
        if kind != "stmt" and kind != "header":
            continue
        if ind <= base:
            break
        inside.append(i)
    return inside


def block_body(n, unit):
    def body(hw):
        from Reduino.transpile import parser as P
        base = sym_int("base", 0, 2)
        base = base.__index__() if pysym.is_sym(base) else base
        meta = []
        for i in range(n):
            ind = sym_int(f"indent{i}", 0, 3)
            kd = sym_int(f"kind{i}", 0, len(KINDS) - 1)
            ind = ind.__index__() if pysym.is_sym(ind) else ind
            kd = kd.__index__() if pysym.is_sym(kd) else kd
            meta.append((ind, KINDS[kd]))
        # python requires the first statement of a block to be indented deeper than the header and the block
        # to be non-empty; within the block, statements share one indent (we only need: > base)
        lines = [unit * base + "if x:"] + [mk_line(ind, kind, i, unit) for i, (ind, kind) in enumerate(meta)]
        block, end = P._collect_block(lines, 0)
        got = [i for i in range(n) if meta[i][1] == "stmt" and (i + 1) < end]
        want = reference_block(meta, base)
        claim("statements assigned to the block are exactly Python's", got == want)
        claim("returned block is the consumed slice", block == lines[1:end])
    return body


def if_structure_body(unit):
    """header / body / (comment|blank)* / else-header with optional trailing comment / body"""
    def body(hw):
        from Reduino.transpile import parser as P
        base = sym_int("base", 0, 1)
        base = base.__index__() if pysym.is_sym(base) else base
        sep_kind = sym_int("sep_kind", 0, 3)
        sep_ind = sym_int("sep_indent", 0, 3)
        tail = sym_int("else_trailing_comment", 0, 2)
        which = sym_int("branch_keyword", 0, 1)
        sk = KINDS[sep_kind.__index__() if pysym.is_sym(sep_kind) else sep_kind]
        si = sep_ind.__index__() if pysym.is_sym(sep_ind) else sep_ind
        tl = tail.__index__() if pysym.is_sym(tail) else tail
        kw = ("else:", "elif y:")[which.__index__() if pysym.is_sym(which) else which]
        if sk == "stmt":
            return    # a statement between the branches is a different program
        header2 = unit * base + kw + ("", "  # note", " #x")[tl]
        lines = [unit * base + "if x:", unit * (base + 1) + "a = 1", mk_line(si, sk, 0, unit), header2,
                 unit * (base + 1) + "b = 2", unit * base + "c = 3"]
        snippet, end = P._collect_if_structure(lines, 0)
        claim("the else/elif branch stays attached to its if", end == 5)
        claim("the statement after the structure is not swallowed", lines[5] not in snippet)
    return body


def try_structure_body(unit):
    def body(hw):
        from Reduino.transpile import parser as P
        base = sym_int("base", 0, 1)
        base = base.__index__() if pysym.is_sym(base) else base
        sep_kind = sym_int("sep_kind", 1, 3)
        sep_ind = sym_int("sep_indent", 0, 3)
        tail = sym_int("except_trailing_comment", 0, 1)
        sk = KINDS[sep_kind.__index__() if pysym.is_sym(sep_kind) else sep_kind]
        si = sep_ind.__index__() if pysym.is_sym(sep_ind) else sep_ind
        tl = tail.__index__() if pysym.is_sym(tail) else tail
        lines = [unit * base + "try:", unit * (base + 1) + "a = 1", mk_line(si, sk, 0, unit),
                 unit * base + "except:" + ("", "  # note")[tl], unit * (base + 1) + "b = 2", unit * base + "c = 3"]
        snippet, end = P._collect_try_structure(lines, 0)
        claim("the except clause stays attached to its try", end == 5)
    return body


# ------------------------------------------------------------------ z3 regex inclusion
def _re_to_z3(pat):
    """Translate the subset of `re` syntax used by the header patterns into a z3 regular expression."""
    pos = 0

    def cls_ws():
        return z3.Union(z3.Re(" "), z3.Re("\t"))

    def word():
        return z3.Union(z3.Range("a", "z"), z3.Range("A", "Z"), z3.Range("0", "9"), z3.Re("_"))

    def anychar():
        return z3.Union(z3.Range(" ", "~"), z3.Re("\t"))

    def parse_alt():
        nonlocal pos
        branches = [parse_seq()]
        while pos < len(pat) and pat[pos] == "|":
            pos += 1
            branches.append(parse_seq())
        return branches[0] if len(branches) == 1 else z3.Union(*branches)

    def parse_seq():
        nonlocal pos
        items = []
        while pos < len(pat) and pat[pos] not in "|)":
            items.append(parse_quant())
        if not items:
            return z3.Re("")
        return items[0] if len(items) == 1 else z3.Concat(*items)

    def parse_quant():
        nonlocal pos
        atom = parse_atom()
        while pos < len(pat) and pat[pos] in "*+?":
            q = pat[pos]
            pos += 1
            if pos < len(pat) and pat[pos] == "?":   # lazy: same language
                pos += 1
            atom = {"*": z3.Star, "+": z3.Plus, "?": z3.Option}[q](atom)
        return atom

    def parse_atom():
        nonlocal pos
        c = pat[pos]
        if c == "(":
            pos += 1
            if pat.startswith("?:", pos):
                pos += 2
            r = parse_alt()
            assert pat[pos] == ")"
            pos += 1
            return r
        if c == "[":
            pos += 1
            neg = pat[pos] == "^"
            if neg:
                pos += 1
            parts = []
            while pat[pos] != "]":
                if pat[pos] == "\\":
                    e = pat[pos + 1]
                    pos += 2
                    parts.append({"w": word(), "s": cls_ws(), "d": z3.Range("0", "9")}.get(e, z3.Re(e)))
                elif pos + 2 < len(pat) and pat[pos + 1] == "-" and pat[pos + 2] != "]":
                    parts.append(z3.Range(pat[pos], pat[pos + 2]))
                    pos += 3
                else:
                    parts.append(z3.Re(pat[pos]))
                    pos += 1
            pos += 1
            u = parts[0] if len(parts) == 1 else z3.Union(*parts)
            if neg:
                return z3.Intersect(anychar(), z3.Complement(u))
            return u
        if c == "\\":
            e = pat[pos + 1]
            pos += 2
            if e == "s":
                return cls_ws()
            if e == "w":
                return word()
            if e == "d":
                return z3.Range("0", "9")
            return z3.Re(e)
        if c == ".":
            pos += 1
            return anychar()
        if c in "^$":
            pos += 1
            return z3.Re("")
        pos += 1
        return z3.Re(c)
    r = parse_alt()
    assert pos == len(pat), (pat, pos)
    return r


HEADER_SPECS = {
    # name: (live pattern attribute, spec regex of the Python spelling WITHOUT comment, a concrete example)
    "while_true": ("RE_WHILE_TRUE", r"while\s+True\s*:", "while True:"),
    "while": ("RE_WHILE", r"while\s+x\s*<\s*3\s*:", "while x < 3:"),
    "for_range": ("RE_FOR_RANGE", r"for\s+i\s+in\s+range\(\s*3\s*\)\s*:", "for i in range(3):"),
    "if": ("RE_IF", r"if\s+x\s*:", "if x:"),
    "elif": ("RE_ELIF", r"elif\s+x\s*:", "elif x:"),
    "else": ("RE_ELSE", r"else\s*:", "else:"),
    "try": ("RE_TRY", r"try\s*:", "try:"),
    "except": ("RE_EXCEPT", r"except\s*:", "except:"),
    "except_named": ("RE_EXCEPT", r"except\s+ValueError\s*:", "except ValueError:"),
    "def": ("RE_DEF", r"def\s+f\s*\(\s*a\s*,\s*b\s*\)\s*:", "def f(a, b):"),
}


def header_obligation(item):
    """spec = header , ws* , [ '#' anything ]   after the dispatch site's pre-processing (strip + the real
    _strip_inline_comment, modelled as: the trailing comment and the blanks before it are removed).
    Query 1 (z3 regex theory): exists a header spelling (no comment) that the live pattern rejects.
    Query 2 (through the real parse()): a witness line with a trailing comment/odd spacing is classified the same."""
    _, name = item
    from Reduino.transpile import parser as P
    attr, spec_src, example = HEADER_SPECS[name]
    res = Result(f"headers/{name}", "holds")
    live = getattr(P, attr).pattern
    try:
        live_re = _re_to_z3(live)
        spec_re = _re_to_z3(spec_src)
    except Exception as e:   # noqa: BLE001
        res.verdict, res.detail = "inconclusive", f"pattern outside the translated regex subset: {e}"
        return res
    line = z3.String("line")
    s = z3.Solver()
    s.set("timeout", 60000)
    s.add(z3.InRe(line, spec_re), z3.Not(z3.InRe(line, live_re)), z3.Length(line) <= 40)
    r = str(s.check())
    res.queries = 1
    res.sample = {"obligation": res.oid, "live_pattern": live, "spec": spec_src}
    if r == "sat":
        w = s.model()[line].as_string()
        w = w.encode().decode("unicode_escape") if "\\u" in w or "\\x" in w else w
        if getattr(P, attr).match(w) is None and re.fullmatch(spec_src, w):
            res.verdict = "violation"
            res.detail = f"{attr} rejects the valid header spelling {w!r}"
            res.witness = {"line": w, "class": "header-spelling"}
        else:
            res.verdict, res.detail = "harness-error", f"regex witness {w!r} did not replay"
        return res
    if r != "unsat":
        res.verdict, res.detail = "inconclusive", "z3 regex query: " + r
        return res
    # vacuity twin: the spec language is not empty and the example is in both
    s2 = z3.Solver()
    s2.add(z3.InRe(line, spec_re), z3.InRe(line, live_re))
    if str(s2.check()) != "sat" or getattr(P, attr).match(example) is None:
        res.verdict, res.detail = "inconclusive", "vacuous: spec and live pattern share no line"
    return res


# ------------------------------------------------------------------ layout metamorphic (real pipeline)
def _split_top_commas(text):
    parts, depth, cur = [], 0, []
    for ch in text:
        if ch in "([{":
            depth += 1
        elif ch in ")]}":
            depth -= 1
        if ch == "," and depth == 0:
            parts.append("".join(cur))
            cur = []
        else:
            cur.append(ch)
    if "".join(cur).strip():
        parts.append("".join(cur))
    return parts


def relayouts(src):
    """Meaning-preserving re-layouts of a script (python-verified: ast.dump of both is equal)."""
    lines = src.split("\n")
    out = {}

    def is_code(ln):
        return ln.strip() and not ln.strip().startswith("#")
    out["trailing_comments"] = "\n".join((ln + "  # c" if is_code(ln) and not ln.rstrip().endswith("\\") else ln) for ln in lines)
    out["trailing_comment_ending_in_backslash"] = "\n".join((ln + "  # falling edge \\" if is_code(ln) and not ln.rstrip().endswith("\\") else ln)
                                                              for ln in lines)
    out["trailing_comment_nospace"] = "\n".join((ln + " #c" if is_code(ln) else ln) for ln in lines)
    col0 = []
    for ln in lines:
        if is_code(ln):
            col0.append("# col0")
        col0.append(ln)
    out["comment_lines_col0"] = "\n".join(col0)
    deep = []
    for ln in lines:
        if is_code(ln):
            deep.append(" " * 11 + "# deep")
        deep.append(ln)
    out["comment_lines_deep"] = "\n".join(deep)
    mid = []
    for ln in lines:
        mid.append(ln)
        if is_code(ln):
            mid.append("  # after, odd column")
    out["comment_lines_after"] = "\n".join(mid)
    out["blank_lines"] = "\n".join(x for ln in lines for x in ((ln, "") if is_code(ln) else (ln,)))
    ws = []
    for ln in lines:
        ws.append(ln)
        if is_code(ln):
            ind = len(ln) - len(ln.lstrip(" "))
            ws.append(" " * max(0, ind - 4))
            ws.append(" " * ind)
            ws.append("\t")
    out["whitespace_only_lines"] = "\n".join(ws)
    out["trailing_whitespace"] = "\n".join(ln + "   " if is_code(ln) else ln for ln in lines)

    def reindent(unit):
        res = []
        for ln in lines:
            n = len(ln) - len(ln.lstrip(" "))
            res.append(unit * (n // 4) + ln.lstrip(" ") if n % 4 == 0 else ln)
        return "\n".join(res)
    out["indent_2"] = reindent("  ")
    out["indent_8"] = reindent(" " * 8)
    out["indent_1"] = reindent(" ")
    out["indent_tab"] = reindent("\t")
    out["hash_in_string"] = src   # placeholder, replaced below when applicable
    spaced = []
    for ln in lines:
        if is_code(ln) and "(" in ln and '"' not in ln and "'" not in ln and not ln.lstrip().startswith(("def ", "from ", "import ")):
            spaced.append(ln.replace("(", "( ").replace(")", " )").replace(",", " ,  "))
        else:
            spaced.append(ln)
    out["spaces_in_calls"] = "\n".join(spaced)
    del out["hash_in_string"]
    # one logical line over several physical lines (implicit joining inside brackets, with and without comments on
    # the inner lines), and several simple statements on one physical line
    import re as _re
    multi, multi_c = [], []
    for ln in lines:
        st = ln.lstrip(" ")
        if (is_code(ln) and "(" in ln and ln.rstrip().endswith(")") and '"' not in ln and "'" not in ln and "#" not in ln
                and not st.startswith(("def ", "from ", "import ", "if ", "elif ", "while ", "for ", "class "))):
            ind = ln[: len(ln) - len(st)]
            k = ln.index("(")
            inner = ln.rstrip()[k + 1:-1]
            parts = [q.strip() for q in _split_top_commas(inner)] if inner.strip() else []
            cont = ind + " " * 8
            if parts:
                multi += [ln[:k + 1]] + [cont + q + ("," if j < len(parts) - 1 else "") for j, q in enumerate(parts)] + [ind + ")"]
                multi_c += [ln[:k + 1] + "  # open"] + [cont + q + ("," if j < len(parts) - 1 else "") + "  # arg"
                                                       for j, q in enumerate(parts)] + [ind + ")  # close"]
            else:
                multi += [ln[:k + 1], ind + ")"]
                multi_c += [ln[:k + 1] + "  # open", ind + ")"]
        else:
            multi.append(ln)
            multi_c.append(ln)
    out["calls_over_several_lines"] = "\n".join(multi)
    out["calls_over_several_lines_commented"] = "\n".join(multi_c)
    bs = []
    for ln in lines:
        st = ln.lstrip(" ")
        m = _re.match(r"^(\s*[A-Za-z_]\w*\s*=\s*)(.+?)(\s[-+*]\s)(.+)$", ln)
        if m and is_code(ln) and '"' not in ln and "'" not in ln and "#" not in ln and "(" not in ln and "[" not in ln:
            bs += [m.group(1) + m.group(2) + m.group(3).rstrip() + " \\", " " * (len(ln) - len(st) + 8) + m.group(4)]
        else:
            bs.append(ln)
    out["backslash_continuation"] = "\n".join(bs)
    semi = []
    simple = _re.compile(r"^\s*(?:[A-Za-z_][\w.]*\s*(?:[-+*/%]?=)\s*[^=].*|[A-Za-z_][\w.]*\(.*\))\s*$")
    i = 0
    while i < len(lines):
        ln = lines[i]
        nxt = lines[i + 1] if i + 1 < len(lines) else None
        ind = len(ln) - len(ln.lstrip(" "))
        if (nxt is not None and is_code(ln) and is_code(nxt) and "#" not in ln and "#" not in nxt and simple.match(ln)
                and simple.match(nxt) and len(nxt) - len(nxt.lstrip(" ")) == ind and not ln.lstrip().startswith(("def ", "from ", "import "))
                and not nxt.lstrip().startswith(("def ", "from ", "import "))):
            semi.append(ln.rstrip() + "; " + nxt.strip())
            i += 2
        else:
            semi.append(ln)
            i += 1
    out["semicolon_joined"] = "\n".join(semi)
    good = {}
    import ast
    try:
        base = ast.dump(ast.parse(src))
    except SyntaxError:
        return {}
    for k, v in out.items():
        try:
            if ast.dump(ast.parse(v)) == base:
                good[k] = v
        except SyntaxError:
            continue
    return good


def _multiline_string_lines(text):
    import io
    import tokenize
    out = set()
    try:
        for tok in tokenize.generate_tokens(io.StringIO(text).readline):
            if tok.type == tokenize.STRING and tok.end[0] != tok.start[0]:
                for ln in text.split("\n")[tok.start[0] - 1:tok.end[0]]:
                    out.add(ln.strip())
    except (tokenize.TokenError, IndentationError, SyntaxError):
        pass
    return out


def layout_obligation(item):
    _, oid, src = item
    from Reduino.transpile import parser as P
    res = Result(oid, "holds", nontrivial=False)

    def tr(text):
        del P._VERIF_IGNORED[:]
        try:
            return ("ok", lower.transpile(text), list(P._VERIF_IGNORED))
        except (ValueError, SyntaxError) as e:
            return ("rejected", type(e).__name__, [])
    base = tr(src)
    n = 0
    res.sample = {"obligation": oid, "script": src, "base": base[0]}
    for st, ln, reason in [(x[0], x[2], x[3]) for x in base[2]]:
        pass
    def audit(text, ignored, where):
        """Every skipped line is a host-only statement, or a piece of a multi-line string (docstring)."""
        doc_lines = _multiline_string_lines(text)
        for _scope, _depth, ln, reason in ignored:
            if reason in ("print", "host-only"):
                continue
            if reason == "fragment" and ln.strip() in doc_lines:
                continue
            res.verdict = "violation"
            res.detail = (f"{where}: the line {ln!r} was skipped without a diagnostic (reason {reason!r}) although it is "
                          "neither a host-only statement nor part of a multi-line string")
            res.witness = {"script": text, "class": "ignored-line"}
            return False
        return True
    if not audit(src, base[2], "original layout"):
        return res
    for name, variant in relayouts(src).items():
        n += 1
        got = tr(variant)
        if not audit(variant, got[2], f"re-layout '{name}'"):
            return res
        if got[:2] != base[:2]:
            res.verdict = "violation"
            if got[0] != base[0]:
                res.detail = f"re-layout '{name}' is {got[0]} while the original is {base[0]}"
            else:
                import difflib
                d = [x for x in difflib.unified_diff(base[1].split("\n"), got[1].split("\n"), lineterm="", n=0)][2:8]
                res.detail = f"re-layout '{name}' changes the firmware: " + " | ".join(d)[:300]
            res.witness = {"script": src, "variant": variant, "layout": name, "class": "layout:" + name}
            return res
    res.queries = n
    res.sample["variants"] = n
    return res


HASH_STRINGS = ['mon.write("lap #1")', "mon.write('it''s #2')", 'mon.write("can\'t reach sensor #2")', "mon.write('say \"#3\"')",
                'mon.write("a\\\\")  # real comment', 'mon.write("#")', "mon.write('#')  # c", 'mon.write("x")  # it\'s a "comment"']


def string_hash_obligation(item):
    """'#' inside string literals is not a comment (whole pipeline): the literal must reach the firmware intact."""
    _, oid, stmt = item
    res = Result(oid, "holds", nontrivial=False)
    src = skeletons.HEADER + "while True:\n    " + stmt + "\n"
    import ast
    lit = None
    for node in ast.walk(ast.parse(stmt)):
        if isinstance(node, ast.Constant) and isinstance(node.value, str):
            lit = node.value
    res.sample = {"obligation": oid, "statement": stmt}
    try:
        cpp = lower.transpile(src)
    except (ValueError, SyntaxError) as e:
        res.detail = "rejected: " + str(e)[:80]
        return res
    from Reduino.transpile.parser import _escape_string_literal
    want = '"' + _escape_string_literal(lit) + '"'
    if want not in cpp:
        res.verdict = "violation"
        res.detail = f"the literal {lit!r} of {stmt!r} does not reach the firmware (statement dropped or truncated)"
        res.witness = {"statement": stmt, "class": "literal-lost"}
    return res


def comment_lemma(tier):
    res = Result("comment/strip_inline_comment", "holds")
    pct = 120 if tier == "quick" else 900
    report, raw, dt = run_crosshair(os.path.join(VERIF, "vlib", "ch", "comment_lemma.py"), {"MAXLEN": 5 if tier == "quick" else 7},
                                    per_condition_timeout=pct, total_timeout=pct + 120)
    res.solver_s, res.queries = dt, 1
    res.sample = {"obligation": res.oid, "contracts": report, "engine": "crosshair-tool"}
    st, msg = report.get("strip_matches_reference", ("inconclusive", "no report line"))
    if st == "refuted":
        m = re.search(r"calling \w+\((.*?)\)(?: \(which|\s*$)", msg)
        arg = None
        if m:
            try:
                arg = eval(m.group(1), {"__builtins__": {}})
            except Exception:
                arg = None
        from ..ch import comment_lemma as real
        if isinstance(arg, str) and real.strip_matches_reference(arg) is False:
            res.verdict = "violation"
            res.detail = f"_strip_inline_comment({arg!r}) = {real._strip_inline_comment(arg)!r}, reference {real._reference(arg)!r}"
            res.witness = {"input": arg, "class": "strip-comment"}
        else:
            res.verdict, res.detail = "harness-error", "crosshair counterexample did not replay: " + msg[:200]
    elif st != "confirmed":
        res.verdict, res.detail = "inconclusive", msg[:200]
    return res


def _work(item):
    kind = item[0]
    if kind == "block":
        _, oid, n, unit = item
        return run_host_obligation(oid, block_body(n, unit), max_paths=200000, max_decisions=400, budget_s=1200,
                                   describe="real _collect_block on symbolic (indent, kind) lines")
    if kind == "ifs":
        return run_host_obligation(item[1], if_structure_body(item[2]), max_paths=5000, max_decisions=400, budget_s=600)
    if kind == "trys":
        return run_host_obligation(item[1], try_structure_body(item[2]), max_paths=5000, max_decisions=400, budget_s=600)
    if kind == "header":
        return header_obligation(item)
    if kind == "layout":
        return layout_obligation(item)
    if kind == "strhash":
        return string_hash_obligation(item)
    if kind == "lemma":
        return comment_lemma(item[1])
    if kind == "accounted":
        from ..diffscript import ScriptDiff
        return ScriptDiff(item[1], item[2], passes=2, budget_s=200).run()
    raise ValueError(kind)


def run(tier, seed, only=None):
    t0 = time.time()
    items = []
    n = 3 if tier == "quick" else 4
    for unit, uname in ((" ", "space"), ("\t", "tab"), ("  ", "2space")):
        items.append(("block", f"blocks/collect_block[n={n},{uname}]", n, unit))
        items.append(("ifs", f"blocks/if_structure[{uname}]", unit))
        items.append(("trys", f"blocks/try_structure[{uname}]", unit))
    for name in HEADER_SPECS:
        items.append(("header", name))
    items.append(("lemma", tier))
    fam = skeletons.stmt_family("quick") + skeletons.feature_family()[:30] + skeletons.fold_family("quick")[:12]
    for oid, src in fam:
        items.append(("layout", "layout/" + oid, src))
    for i, st in enumerate(HASH_STRINGS):
        items.append(("strhash", f"layout/hash_in_string/{i}", st))
    # every statement kind in every block context leaves its observable effect in the firmware (nothing disappears)
    for oid, src in skeletons.ctx_family(tier):
        items.append(("accounted", "accounted/" + oid[4:], src))
    # the stmt family too - except skeletons whose C01 obligation is a recorded finding with a semantic root cause (C
    # arithmetic, folded len(), ...): those are value differences, not vanished statements, and are reported under C01
    from ..common import load_findings
    c01_known = {"/".join(str(f.get("key")).split("/")[:2]) for f in load_findings()
                 if f.get("property") == "C01" and f.get("status") == "known"}
    for oid, src in skeletons.stmt_family(tier):
        if "/".join(oid.split("/")[:2]) not in c01_known:      # (every placement of such a skeleton)
            items.append(("accounted", "accounted/" + oid, src))
    if only:
        items = [i for i in items if only in str(i[1])]
    results = run_obligations(items, _work)
    return finish(
        "C07", "other", tier, seed, results, t0,
        explanation="Block extent: the real _collect_block/_collect_if_structure/_collect_try_structure are executed (pysym) on "
                    "line lists built from solver-chosen indentation/kind vectors and compared with Python's block rule on "
                    "every path.  Header recognisers: z3's regular-expression theory decides whether a valid header spelling "
                    "exists that the live pattern rejects.  _strip_inline_comment: CrossHair against a reference scanner over "
                    "the alphabet {space # ' \" \\ a :}.  Cross-check through the real pipeline: every skeleton is re-laid-out "
                    "in 19 meaning-preserving ways (ast-equal by construction) and must yield byte-identical firmware; with "
                    "REDUINO_VERIF=1 the parser's ignored-line log may contain only host-only statements and fragments.  accounted/*: "
                    "the F-vs-H trace differential of C01 on the statement-kind x block-context product family.",
        functions_encoded=["parser._indent_of/_collect_block/_collect_if_structure/_collect_try_structure (pysym)",
                           "parser.RE_WHILE_TRUE/RE_WHILE/RE_FOR_RANGE/RE_IF/RE_ELIF/RE_ELSE/RE_TRY/RE_EXCEPT/RE_DEF (z3 regex)",
                           "parser._strip_inline_comment (CrossHair)", "parse()+emit() on re-laid-out scripts"],
        bounds={"block lines": n, "indent": "0..3 units; unit in {1 space, 2 spaces, tab}", "header line length": "<= 40",
                "comment lemma": "len <= 5 (quick) / 7 over a 7-letter alphabet",
                "accounted": "26 statement kinds x 19 block contexts, 2 loop passes, sensor values symbolic", "layout variants per script": 19},
        assumptions=["the layout cross-check is concrete (one run per variant); its deciding parts are the symbolic block/regex/"
                     "comment obligations", "Python requires block bodies to be indented deeper than their header"],
        stubs=[],
    )


def replay(path):
    import json
    print(json.dumps(json.load(open(path)), indent=1)[:4000])
    return 0
