"""Shared runner for the script-level translation-validation properties (C01, C02, C03, C05)."""
from __future__ import annotations

import os
import time

from ..common import Result, finish, run_obligations
from ..diffscript import ScriptDiff

ASSUMPTIONS = [
    "program shapes are the enumerated skeleton families of vlib/skeletons.py (bounded-exhaustive over the family, "
    "not all programs); everything a skeleton leaves open - every sensor reading of every pass - is symbolic",
    "firmware = LLVM IR of emit(parse(src)) lowered by clang++-14 -O0 (+mem2reg) for x86-64 against the mock Arduino core "
    "(32-bit int, 64-bit long; AVR's 16-bit int is outside the claim)",
    "python side = the same script executed by CPython against the real Reduino host modules with z3 proxies; "
    "paths on which CPython raises are outside the property",
    "sensor stubs: analogRead in 0..1023, digitalRead in {0,1}; the k-th read of a pin is the same variable on both sides",
    "rendered numbers are compared by value (float text format, and binary32 vs binary64 beyond rel 1e-4/abs 1e-4, are "
    "outside the claim); device delays are whole milliseconds (|d_F - d_H| < 1)",
    "configuration events of device-owned pins (pinMode, Serial.begin) are not compared here (C05 checks them)",
]

FUNCTIONS = ["Reduino.transpile.parser.parse", "Reduino.transpile.emitter.emit",
             "emitted setup()/loop()/helper functions (IR, executed by vlib.fwsym)",
             "Reduino.Utils.sleep", "Reduino.Communication.SerialMonitor.write", "Reduino.Actuators.*", "Reduino.Core.* (instrumented)"]


def work(item):
    oid, src, kw = item
    return ScriptDiff(oid, src, **kw).run()


def run_family(prop, level, tier, seed, only, family, *, passes, explanation, extra_assumptions=(), budget_s=None,
               post=None):
    t0 = time.time()
    items = []
    for oid, src in family:
        if only and only not in oid:
            continue
        kw = {"passes": passes}
        if budget_s:
            kw["budget_s"] = budget_s
        items.append((oid, src, kw))
    results = run_obligations(items, work)
    if post:
        results = post(results)
    rejected = sum(1 for r in results if r.extra.get("rejected"))
    return finish(
        prop, level, tier, seed, results, t0,
        explanation=explanation,
        functions_encoded=FUNCTIONS,
        bounds={"loop passes": passes, "loop unwinding": "40 visits per block (unwinding assertion: exceeding it is inconclusive)",
                "skeletons": len(items), "rejected by the transpiler (allowed)": rejected,
                "int inputs": "analog reads 0..1023 (minus constants)", "paths per skeleton": "<= 600"},
        assumptions=ASSUMPTIONS + list(extra_assumptions),
        stubs=["digitalRead/analogRead -> fresh bounded symbolic values", "delay/pin writes/Serial -> trace events",
               "String(number) -> opaque rendered-number piece"],
        programs=len(items),
    )
