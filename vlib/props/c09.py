"""C09 - generated firmware is memory-safe and does not leak across loop() passes.

List/str-manipulating skeletons are lowered to IR and executed symbolically with the memory monitors of
fwsym switched on (out-of-bounds / freed / uninitialised access, double or invalid delete[], signed overflow,
division by zero, over-wide shift, float-to-int out of range) for N passes, *under the path condition of the
CPython run* of the same script - so indices are constrained to be IndexError-free exactly as the property
requires.  Heap bytes/blocks are sampled after setup() and after every pass; whenever CPython's live list/str
data is equal after two consecutive passes the firmware heap must be equal too.  Counterexamples are replayed
on a g++ -fsanitize=address,undefined build whose operator new/delete are counted.
"""
from __future__ import annotations

import time

from ..common import finish, run_obligations
from ..diffscript import ScriptDiff
from ._script_common import ASSUMPTIONS

HDR = '''from Reduino import target
target("COM3", upload=False)
from Reduino.Communication import SerialMonitor
from Reduino.Core import analog_read
from Reduino.Utils import sleep
mon = SerialMonitor(9600, "COM3")
'''
RD = '    v = analog_read("A0")\n    w = analog_read("A1")\n'


def family(tier):
    F = {}
    F["index_sym"] = HDR + "xs = [10, 20, 30, 40]\nwhile True:\n" + RD + "    i = v // 200 - 1\n    mon.write(xs[i])\n"
    F["index_neg_sym"] = HDR + "xs = [10, 20, 30]\nwhile True:\n" + RD + "    i = v // 256 - 3\n    mon.write(xs[i])\n"
    F["index_literal_neg"] = HDR + "xs = [1, 2, 3]\nwhile True:\n    mon.write(xs[-1])\n    mon.write(xs[-3])\n"
    F["index_after_append"] = HDR + "xs = [1]\nwhile True:\n" + RD + "    xs.append(v)\n    mon.write(xs[len(xs) - 1])\n    mon.write(xs[0])\n"
    F["append_global_each_pass"] = HDR + "xs = []\nwhile True:\n" + RD + "    xs.append(v)\n    mon.write(len(xs))\n"
    F["append_remove_balanced"] = HDR + "q = []\nwhile True:\n" + RD + "    q.append(v)\n    head = q[0]\n    q.remove(head)\n    mon.write(head)\n"
    F["append_remove_keep_one"] = HDR + "q = [5]\nwhile True:\n" + RD + "    q.append(v)\n    q.remove(q[0])\n    mon.write(q[0])\n"
    F["remove_missing"] = HDR + "xs = [1, 2, 3]\nwhile True:\n" + RD + "    if v > 1000:\n        xs.remove(2)\n    mon.write(xs[0])\n"
    F["remove_to_empty"] = HDR + "xs = [7]\nwhile True:\n    xs.remove(7)\n    xs.append(7)\n    mon.write(len(xs))\n"
    F["local_list_each_pass"] = HDR + "while True:\n" + RD + "    ys = [v, w, 3]\n    mon.write(ys[1])\n"
    F["local_list_in_branch"] = HDR + "while True:\n" + RD + "    if v > 512:\n        ys = [1, 2]\n        mon.write(ys[0])\n    mon.write(0)\n"
    F["comprehension_each_pass"] = HDR + "while True:\n    sq = [i * i for i in range(4)]\n    mon.write(sq[3])\n"
    F["comprehension_desc"] = HDR + "while True:\n    d = [i * 2 for i in range(10, 0, -3)]\n    mon.write(d[0])\n    mon.write(len(d))\n"
    F["comprehension_desc_even"] = HDR + "while True:\n    d = [i for i in range(8, 0, -2)]\n    mon.write(d[3])\n"
    F["comprehension_setup"] = HDR + "sq = [i + 1 for i in range(5)]\nwhile True:\n" + RD + "    mon.write(sq[v // 256])\n"
    F["comprehension_step"] = HDR + "while True:\n    e = [i for i in range(1, 9, 3)]\n    mon.write(e[2])\n"
    F["alias_then_append"] = HDR + "a = [1, 2]\nb = [0]\nwhile True:\n" + RD + "    b = a\n    a.append(v)\n    mon.write(b[0])\n    mon.write(len(b))\n"
    F["alias_decl_setup"] = HDR + "a = [1, 2]\nb = a\nwhile True:\n" + RD + "    a.append(v)\n    mon.write(b[0])\n"
    F["alias_decl_loop"] = HDR + "a = [1, 2]\nwhile True:\n" + RD + "    b = a\n    a.append(v)\n    mon.write(b[0])\n"
    F["alias_same_len"] = HDR + "a = [1, 2]\nb = [3, 4]\nwhile True:\n" + RD + "    b = a\n    a.append(v)\n    a.remove(a[0])\n    mon.write(b[0])\n"
    F["assign_copy_each_pass"] = HDR + "a = [1, 2, 3]\nb = [9]\nwhile True:\n    b = a\n    mon.write(b[2])\n"
    F["reassign_literal_each_pass"] = HDR + "xs = [1, 2]\nwhile True:\n" + RD + "    xs = [v, w]\n    mon.write(xs[0])\n"
    F["shared_setup_loop"] = HDR + "xs = [1, 2, 3]\nxs.append(4)\nmon.write(xs[3])\nwhile True:\n    mon.write(xs[0])\n    xs.remove(xs[0])\n    xs.append(9)\n"
    F["list_in_function"] = HDR + "def first(n):\n    t = [n, n + 1]\n    return t[0]\nwhile True:\n" + RD + "    mon.write(first(v))\n"
    F["list_param"] = HDR + "xs = [4, 5, 6]\ndef pick(i):\n    return xs[i]\nwhile True:\n" + RD + "    mon.write(pick(v // 400))\n"
    F["str_concat_each_pass"] = HDR + "while True:\n" + RD + '    s = "v=" + str(v)\n    mon.write(s)\n'
    F["str_grow_global"] = HDR + 's = ""\nwhile True:\n    s = s + "x"\n    mon.write(len(s))\n'
    F["str_index"] = HDR + 's = "hello"\nwhile True:\n' + RD + "    mon.write(s[v // 256])\n"
    F["float_list"] = HDR + "fs = [0.5, 1.5]\nwhile True:\n" + RD + "    fs.append(v / 4.0)\n    mon.write(fs[len(fs) - 1])\n    fs.remove(fs[0])\n"
    F["nested_index_expr"] = HDR + "xs = [0, 1, 2, 3]\nwhile True:\n" + RD + "    mon.write(xs[xs[v // 256]])\n"
    F["membership"] = HDR + "xs = [3, 5, 7]\nwhile True:\n" + RD + "    if v // 100 in xs:\n        mon.write(1)\n    else:\n        mon.write(0)\n"
    F["len_loop"] = HDR + "xs = [3, 5, 7]\nwhile True:\n    for i in range(len(xs)):\n        mon.write(xs[i])\n"
    F["assign_longer_into_shorter"] = HDR + "window = [0 for i in range(2)]\nhistory = [i * i for i in range(6)]\nwhile True:\n    window = history\n    mon.write(window[5])\n"
    F["assign_shorter_into_longer"] = HDR + "window = [0 for i in range(6)]\nhistory = [i * i for i in range(2)]\nwhile True:\n    window = history\n    mon.write(window[1])\n"
    F["assign_grown_into_fixed"] = HDR + "a = [1]\nb = [7, 8]\nwhile True:\n" + RD + "    a.append(v)\n    b = a\n    mon.write(b[0])\n    a.remove(a[0])\n"
    F["returned_param_list"] = HDR + "def pick(p, q, first):\n    if first:\n        return p\n    return q\nday = [1, 2]\nnight = [3, 4]\ncur = [0, 0]\nwhile True:\n" + RD + "    cur = pick(day, night, v > 500)\n    mon.write(cur[0])\n    mon.write(day[1])\n    mon.write(night[1])\n"
    F["returned_global_list"] = HDR + "base = [5, 6]\ndef same():\n    return base\ncur = [0, 0]\nwhile True:\n    cur = same()\n    mon.write(cur[1])\n    mon.write(base[0])\n"
    F["swap_elements"] = HDR + "xs = [1, 2]\nwhile True:\n    a = xs[0]\n    b = xs[1]\n    xs.remove(a)\n    xs.append(a)\n    mon.write(xs[0])\n"
    if tier == "thorough":
        F["two_lists_cross"] = HDR + "a = [1]\nb = [2]\nwhile True:\n" + RD + "    a.append(b[0])\n    b.append(a[0])\n    a.remove(a[0])\n    b.remove(b[0])\n    mon.write(a[0] + b[0])\n"
        F["append_in_nested_loop"] = HDR + "xs = []\nwhile True:\n    for i in range(2):\n        xs.append(i)\n    xs.remove(0)\n    xs.remove(1)\n    mon.write(len(xs))\n"
    out = [(f"mem/{k}", v) for k, v in F.items()]
    # list manipulations (append of an own element, swaps/rotations of whole lists, remove with duplicates) in every
    # block context
    from .. import skeletons as sk
    out += [("mem/ctx/" + oid[4:], src) for oid, src in sk.ctx_family(tier, table=sk.CTX_LIST_STMTS)]
    return out


def monitor(events, dev, host_events=None):
    problems = []
    heap = []
    for ev in events:
        if ev[0] == "flag":
            kind = ev[1]
            if kind in ("uninit-read",) and len(ev) > 2 and "stack" in str(ev[2]):
                # reading an uninitialised stack slot of the mock String buffer beyond its length is not observable
                continue
            problems.append(f"{kind}: {ev[2] if len(ev) > 2 else ''}"[:120])
        elif ev[0] == "heap":
            heap.append(ev[1] if not isinstance(ev[1], tuple) else ev[1])
    if host_events is not None:
        py = [e[1] for e in host_events if e[0] == "pyheap"]
        # heap[k]/py[k]: after setup (k=0) and after every pass
        for k in range(1, min(len(heap), len(py)) - 1):
            if py[k + 1] == py[k] and heap[k + 1] != heap[k]:
                problems.append(f"heap grows from {heap[k]} to {heap[k + 1]} live blocks between passes {k} and {k + 1} "
                                f"while the python program's live data is constant ({py[k]})")
                break
    return problems


def _work(item):
    oid, src, passes = item
    return ScriptDiff(oid, src, passes=passes, check_ub=True, fw_only_check=monitor, compare=False,
                      replay_flags=("-fsanitize=address,undefined", "-fno-omit-frame-pointer"),
                      max_block_visits=200, budget_s=300).run()


def run(tier, seed, only=None):
    t0 = time.time()
    passes = 3 if tier == "quick" else 4
    items = [(oid, src, passes) for oid, src in family(tier)]
    if only:
        items = [i for i in items if only in i[0]]
    results = run_obligations(items, _work)
    return finish(
        "C09", "translation_validation", tier, seed, results, t0,
        explanation="For each list/str skeleton the emitted C++ (including the instantiated list helper templates) is lowered "
                    "to IR and executed symbolically for N passes with memory/UB monitors on, under the path condition of "
                    "the CPython run of the same script (so symbolic indices range over exactly the IndexError-free values); "
                    "a monitor hit on a feasible path, or heap growth between two passes while CPython's live data is "
                    "constant, gives inputs that are replayed on an ASan/UBSan build with counted operator new/delete.",
        functions_encoded=["__redu_make_list/__redu_list_get/append/remove/assign/from_range/__redu_len (IR, as instantiated)",
                           "emitted setup()/loop()/user functions (IR)"],
        bounds={"passes": passes, "list length": "<= 6", "loop unwinding": 200, "skeletons": len(items)},
        assumptions=ASSUMPTIONS + ["heap usage is sampled as live operator-new blocks after setup() and after each pass; the mock "
                                   "String keeps its characters inline, so Arduino-core String heap traffic is outside the claim",
                                   "python live data = total length of list/str values held in the script's global variables"],
        stubs=["operator new[]/delete[] -> heap objects with liveness", "sensor reads symbolic"],
        programs=len(items),
    )


def replay(path):
    import json
    print(json.dumps(json.load(open(path)), indent=1)[:4000])
    return 0
