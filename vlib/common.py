"""Shared plumbing: obligations, evidence files, known findings, exit codes."""
from __future__ import annotations

import json
import multiprocessing as mp
import os
import sys
import time
import traceback
from dataclasses import dataclass, field
from typing import Callable, Dict, List, Optional

VERIF = os.path.dirname(os.path.dirname(os.path.abspath(__file__)))
EVIDENCE_DIR = os.environ.get("VERIF_EVIDENCE_DIR") or os.path.join(VERIF, "evidence")
REPLAY_DIR = os.environ.get("VERIF_REPLAY_DIR") or os.path.join(VERIF, "replays")
FINDINGS_FILE = os.path.join(VERIF, "known_findings.json")

EXIT_OK = 0
EXIT_VIOLATION = 1
EXIT_HARNESS = 3


@dataclass
class Result:
    """Outcome of one obligation."""
    oid: str                      # stable obligation id (used as known-finding key)
    verdict: str                  # holds | violation | inconclusive | harness-error
    detail: str = ""
    queries: int = 0
    solver_s: float = 0.0
    paths: int = 0
    nontrivial: bool = True       # query mentioned >=1 symbolic variable
    witness: Optional[dict] = None  # concrete counterexample (after replay) for violations
    sample: Optional[dict] = None   # written-out obligation for evidence samples
    extra: dict = field(default_factory=dict)


def load_findings():
    if not os.path.exists(FINDINGS_FILE):
        return []
    with open(FINDINGS_FILE) as f:
        return json.load(f).get("findings", [])


def match_finding(findings, prop, res: Result):
    """A violation is known only if property, obligation key and witness class agree."""
    for fd in findings:
        if fd.get("status") != "known" or fd.get("property") != prop:
            continue
        key = fd.get("key", "")
        if key != res.oid and not (key.endswith("*") and res.oid.startswith(key[:-1])):
            continue
        wclass = fd.get("witness_class")
        if wclass is not None:
            allowed = wclass if isinstance(wclass, list) else [wclass]
            if (res.witness or {}).get("class") not in allowed:
                continue
        return fd
    return None


_JOB = None


def run_obligations(items: List, worker: Callable, nproc: Optional[int] = None, chunksize=1) -> List[Result]:
    """Run worker(item) -> Result | list[Result] for every item, in parallel (fork; items are
    inherited by the children, only indices and Results cross the pipe)."""
    global _JOB
    nproc = nproc or int(os.environ.get("VERIF_JOBS", "0")) or min(16, os.cpu_count() or 4)
    out: List[Result] = []
    if nproc <= 1 or len(items) <= 1:
        for it in items:
            out.extend(_safe(worker, it))
        return out
    _JOB = (items, worker)
    ctx = mp.get_context("fork")
    with ctx.Pool(min(nproc, len(items)), maxtasksperchild=1) as pool:   # one fresh process per obligation: no state can leak between obligations
        for rs in pool.imap_unordered(_run_index, range(len(items)), chunksize):
            out.extend(rs)
    _JOB = None
    out.sort(key=lambda r: r.oid)
    return out


def _run_index(i):
    items, worker = _JOB
    rs = _safe(worker, items[i])
    for r in rs:  # make sure everything is picklable
        if r.witness is not None:
            r.witness = json.loads(json.dumps(r.witness, default=str))
        if r.sample is not None:
            r.sample = json.loads(json.dumps(r.sample, default=str))
        r.extra = json.loads(json.dumps(r.extra, default=str))
    return rs


def _safe(worker, item):
    try:
        r = worker(item)
        if isinstance(r, Result):
            return [r]
        return list(r)
    except Exception as e:  # harness bug: never a violation, never a pass
        oid = getattr(item, "oid", None) or (item[0] if isinstance(item, (tuple, list)) and item else str(item))
        return [Result(str(oid), "harness-error", detail=f"{type(e).__name__}: {e}\n{traceback.format_exc()[-1500:]}")]


def finish(prop: str, level: str, tier: str, seed: int, results: List[Result], t0: float, *,
           explanation: str, functions_encoded: List[str], bounds: Dict, assumptions: List[str],
           stubs: List[str] = (), rule: str = "", extra_cov: Optional[dict] = None,
           programs: Optional[int] = None, exhaustive: Optional[bool] = None) -> int:
    """Write evidence, print findings/violations, return exit code."""
    findings = load_findings()
    os.makedirs(EVIDENCE_DIR, exist_ok=True)
    rdir = os.path.join(REPLAY_DIR, prop)
    if os.path.isdir(rdir):
        for fn in os.listdir(rdir):
            if fn.endswith(".json"):
                os.unlink(os.path.join(rdir, fn))
    n_viol = 0
    known_lines = []
    viol_lines = []
    harness = [r for r in results if r.verdict == "harness-error"]
    matched = []
    for r in results:
        if r.verdict != "violation":
            continue
        fd = match_finding(findings, prop, r)
        if fd is not None:
            matched.append((fd, r))
            continue
        n_viol += 1
        os.makedirs(os.path.join(REPLAY_DIR, prop), exist_ok=True)
        rp = os.path.join(REPLAY_DIR, prop, _safe_name(r.oid) + ".json")
        with open(rp, "w") as f:
            json.dump({"property": prop, "obligation": r.oid, "detail": r.detail, "witness": r.witness}, f, indent=1,
                      default=str)
        viol_lines.append(f"VIOLATION property={prop} replay={rp}")
    seen = set()
    for fd, r in matched:
        k = (fd.get("key"), str(fd.get("witness_class")))
        if k in seen:
            continue
        seen.add(k)
        known_lines.append(f"KNOWN-FINDING: property={prop} {fd.get('key')} - {fd.get('what', '')}")
    holds = [r for r in results if r.verdict == "holds"]
    inconc = [r for r in results if r.verdict == "inconclusive"]
    samples = [r.sample for r in results if r.sample][:5]
    if not samples:
        samples = [{"obligation": r.oid, "verdict": r.verdict, "detail": r.detail[:300]} for r in results[:3]]
    cov = {
        "explanation": explanation,
        "obligations": len(results),
        "discharged": len(holds),
        "violations_confirmed": len([r for r in results if r.verdict == "violation"]),
        "known_finding_matches": len(matched),
        "inconclusive": len(inconc),
        "harness_errors": len(harness),
        "inconclusive_list": [f"{r.oid}: {r.detail[:160]}" for r in inconc][:40],
        "evaluations": sum(r.queries for r in results),
        "distinct_nontrivial": len({r.oid for r in results if r.nontrivial and r.verdict in ("holds", "violation")}),
        "rule": rule or "one evaluation = one solver query; distinct_nontrivial = distinct obligations decided "
                        "(unsat or replay-confirmed sat) whose query mentions at least one symbolic variable",
        "paths": sum(r.paths for r in results),
        "solver_s": round(sum(r.solver_s for r in results), 3),
        "samples": samples,
        "functions_encoded": functions_encoded,
        "bounds": bounds,
        "stubs": list(stubs),
    }
    if programs is not None:
        cov["programs"] = programs
        cov["disagreements_checked"] = len([r for r in results if r.verdict == "violation"]) + sum(
            r.extra.get("nonreplaying", 0) for r in results)
    if exhaustive is not None:
        cov["exhaustive"] = exhaustive
    if extra_cov:
        cov.update(extra_cov)
    ev = {
        "property_id": prop,
        "tier": tier,
        "seed": seed,
        "level": level,
        "coverage": cov,
        "assumptions": assumptions,
        "wall_s": round(time.time() - t0, 2),
        "violations": n_viol,
    }
    with open(os.path.join(EVIDENCE_DIR, prop + ".json"), "w") as f:
        json.dump(ev, f, indent=1, default=str)
    for ln in known_lines:
        print(ln)
    for r in inconc[:20]:
        print(f"INCONCLUSIVE property={prop} {r.oid}: {r.detail[:200]}")
    print(f"[{prop}] tier={tier} obligations={len(results)} holds={len(holds)} violations={n_viol} "
          f"known={len(matched)} inconclusive={len(inconc)} harness_errors={len(harness)} "
          f"queries={cov['evaluations']} solver_s={cov['solver_s']} wall_s={ev['wall_s']}")
    for r in harness[:10]:
        print(f"HARNESS-ERROR property={prop} {r.oid}: {r.detail[:1500]}", file=sys.stderr)
    # a replay-confirmed violation stands on its own: an unrelated obligation whose harness broke does not hide it
    for ln in viol_lines:
        print(ln)
    if n_viol:
        return EXIT_VIOLATION
    return EXIT_HARNESS if harness else EXIT_OK


def _safe_name(s):
    return "".join(c if c.isalnum() or c in "-_." else "_" for c in s)[:150]
