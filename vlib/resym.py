"""Regular expressions of the code under test as z3 regex terms (from Python's own parse tree of the live pattern),
and the solver query for exponentially ambiguous loops (the cause of catastrophic backtracking).

A loop (A)* / (A)+ / (A){m,} is exponentially ambiguous when some non-empty string can be read both as ONE iteration
of A and as TWO OR MORE iterations: then w^n has 2^n decompositions, all of which a backtracking matcher visits when
the rest of the pattern fails.  Query per loop:  exists w . w in L(A)  and  w in L(A . A+)   (z3 sequence/regex theory).
"""
from __future__ import annotations

import re
import re._constants as C
import re._parser as sre_parse

import z3

MAXREPEAT = C.MAXREPEAT


class Unsupported(Exception):
    pass


def _anychar(dotall=False):
    if dotall:
        return z3.AllChar(z3.ReSort(z3.StringSort()))
    return z3.Intersect(z3.AllChar(z3.ReSort(z3.StringSort())), z3.Complement(z3.Re("\n")))


def _category(cat):
    ws = z3.Union(z3.Re(" "), z3.Re("\t"), z3.Re("\n"), z3.Re("\r"), z3.Re("\x0b"), z3.Re("\x0c"))
    digit = z3.Range("0", "9")
    word = z3.Union(z3.Range("a", "z"), z3.Range("A", "Z"), digit, z3.Re("_"))
    allc = z3.AllChar(z3.ReSort(z3.StringSort()))
    table = {
        C.CATEGORY_SPACE: ws, C.CATEGORY_DIGIT: digit, C.CATEGORY_WORD: word,
        C.CATEGORY_NOT_SPACE: z3.Intersect(allc, z3.Complement(ws)),
        C.CATEGORY_NOT_DIGIT: z3.Intersect(allc, z3.Complement(digit)),
        C.CATEGORY_NOT_WORD: z3.Intersect(allc, z3.Complement(word)),
    }
    if cat not in table:
        raise Unsupported(f"category {cat}")
    return table[cat]


def _concat(parts):
    parts = list(parts)
    if not parts:
        return z3.Re("")
    return parts[0] if len(parts) == 1 else z3.Concat(*parts)


def _union(parts):
    parts = list(parts)
    return parts[0] if len(parts) == 1 else z3.Union(*parts)


def node_to_z3(op, av, flags=0):
    if op is C.LITERAL:
        return z3.Re(chr(av))
    if op is C.NOT_LITERAL:
        return z3.Intersect(z3.AllChar(z3.ReSort(z3.StringSort())), z3.Complement(z3.Re(chr(av))))
    if op is C.ANY:
        return _anychar(bool(flags & re.DOTALL))
    if op is C.IN:
        neg = False
        parts = []
        for o, a in av:
            if o is C.NEGATE:
                neg = True
            elif o is C.LITERAL:
                parts.append(z3.Re(chr(a)))
            elif o is C.RANGE:
                parts.append(z3.Range(chr(a[0]), chr(a[1])))
            elif o is C.CATEGORY:
                parts.append(_category(a))
            else:
                raise Unsupported(f"set item {o}")
        u = _union(parts)
        if neg:
            return z3.Intersect(z3.AllChar(z3.ReSort(z3.StringSort())), z3.Complement(u))
        return u
    if op is C.BRANCH:
        return _union([seq_to_z3(alt, flags) for alt in av[1]])
    if op is C.SUBPATTERN:
        return seq_to_z3(av[3], flags)
    if op in (C.MAX_REPEAT, C.MIN_REPEAT) or getattr(C, "POSSESSIVE_REPEAT", None) is op:
        lo, hi, body = av
        b = seq_to_z3(body, flags)
        if hi == MAXREPEAT:
            if lo == 0:
                return z3.Star(b)
            if lo == 1:
                return z3.Plus(b)
            return z3.Concat(*([b] * lo + [z3.Star(b)]))
        if lo == 0 and hi == 1:
            return z3.Option(b)
        return z3.Loop(b, lo, hi)
    if op is C.AT:
        return z3.Re("")
    if op is C.CATEGORY:
        return _category(av)
    raise Unsupported(str(op))


def seq_to_z3(seq, flags=0):
    return _concat(node_to_z3(op, av, flags) for op, av in seq)


def pattern_to_z3(pattern: str, flags=0):
    return seq_to_z3(sre_parse.parse(pattern, flags), flags)


def loops(seq, path=""):
    """Yield (where, lo, hi, body) for every repeat whose upper bound exceeds one, at any depth."""
    for i, (op, av) in enumerate(seq):
        here = f"{path}/{i}"
        if op in (C.MAX_REPEAT, C.MIN_REPEAT) or getattr(C, "POSSESSIVE_REPEAT", None) is op:
            lo, hi, body = av
            if hi > 1:
                yield here, lo, hi, body
            yield from loops(body, here)
        elif op is C.SUBPATTERN:
            yield from loops(av[3], here)
        elif op is C.BRANCH:
            for j, alt in enumerate(av[1]):
                yield from loops(alt, f"{here}|{j}")
        elif op in (C.ASSERT, C.ASSERT_NOT):
            yield from loops(av[1], here)


def _single_char_body(body):
    return len(body) == 1 and body[0][0] in (C.LITERAL, C.NOT_LITERAL, C.ANY, C.IN, C.CATEGORY)


def ambiguous_loops(pattern: str, flags=0, timeout_ms=20000, max_len=12):
    """-> (findings, queries, unknowns): findings = [(where, witness w)] for loops that are exponentially ambiguous."""
    tree = sre_parse.parse(pattern, flags)
    findings, unknown, q = [], [], 0
    for where, lo, hi, body in loops(tree):
        if _single_char_body(body):
            continue     # one iteration = exactly one character: a string has one decomposition
        a = seq_to_z3(body, flags)
        w = z3.String("w")
        s = z3.Solver()
        s.set("timeout", timeout_ms)
        s.add(z3.Length(w) >= 1, z3.Length(w) <= max_len, z3.InRe(w, a), z3.InRe(w, z3.Concat(a, z3.Plus(a))))
        q += 1
        r = str(s.check())
        if r == "sat":
            findings.append((where, s.model()[w].as_string()))
        elif r != "unsat":
            unknown.append(where)
    return findings, q, unknown


def pumped_inputs(pattern: str, witness: str, flags=0, k=40):
    """Candidate slow inputs: a string the whole pattern accepts that contains the witness, with the witness
    repeated k times and the end spoilt so that the overall match fails."""
    out = []
    try:
        full = pattern_to_z3(pattern, flags)
    except Unsupported:
        full = None
    seeds = []
    if full is not None:
        x = z3.String("x")
        s = z3.Solver()
        s.set("timeout", 20000)
        s.add(z3.InRe(x, full), z3.Contains(x, z3.StringVal(witness * 2)), z3.Length(x) <= 60)
        if str(s.check()) == "sat":
            seeds.append(s.model()[x].as_string())
    for seed in seeds:
        i = seed.find(witness * 2)
        for spoil in ("\x00", "(", "\n!", ")x"):
            out.append(seed[:i] + witness * k + seed[i + 2 * len(witness):] + spoil)
            out.append(seed[:i] + witness * k + spoil)
    return out
