"""Enumerated program skeletons (the finite part of "for all programs").

Every skeleton is a complete user script in the documented style.  Run-time values come from
sensor reads, so they are symbolic for the solver.  Ids are stable: they are the obligation ids used
in evidence, replay files and known_findings.json.
"""
from __future__ import annotations

from typing import Dict, List, Tuple

HEADER = '''from Reduino import target
target("COM3", upload=False)
from Reduino.Communication import SerialMonitor
from Reduino.Core import analog_read, digital_read, digital_write, analog_write, pin_mode, OUTPUT, INPUT, HIGH, LOW
from Reduino.Utils import sleep
from Reduino.Actuators import Led, RGBLed
mon = SerialMonitor(9600, "COM3")
'''

READ_AB = '''    a = analog_read("A0") - 512
    b = analog_read("A1") - 512
'''


def _loop(body: str, pre: str = "") -> str:
    return HEADER + pre + "while True:\n" + body


def _ind(text: str, n=4) -> str:
    return "".join((" " * n + ln + "\n") if ln.strip() else "\n" for ln in text.strip("\n").split("\n"))


# ------------------------------------------------------------------ expr family
INT_EXPRS = [
    ("add", "a + b"), ("sub", "a - b"), ("mul", "a * b"), ("floordiv", "a // b"), ("mod", "a % b"),
    ("truediv", "a / b"), ("pow2", "a ** 2"), ("neg", "-a"), ("pos", "+a"), ("invert", "~a"),
    ("and", "a & b"), ("or", "a | b"), ("xor", "a ^ b"), ("shl", "a << 2"), ("shr", "a >> 1"),
    ("abs", "abs(a)"), ("min2", "min(a, b)"), ("max2", "max(a, b)"), ("min3", "min(a, b, 3)"),
    ("max3", "max(a, 7, b)"),
    ("lt", "1 if (a < b) else 0"), ("le", "1 if (a <= b) else 0"), ("gt", "1 if (a > b) else 0"), ("ge", "1 if (a >= b) else 0"), ("eq", "1 if (a == b) else 0"), ("ne", "1 if (a != b) else 0"),
    ("chain", "1 if (a < b < 100) else 0"), ("chain3", "1 if (0 <= a <= b) else 0"),
    ("land", "1 if (a > 0 and b > 0) else 0"), ("lor", "1 if (a > 0 or b > 0) else 0"), ("lnot", "1 if (not a) else 0"),
    ("land_val", "a and b"), ("lor_val", "a or b"),
    ("ifexp", "a if b > 0 else b"), ("ifexp_nested", "1 if a > 0 else 2 if b > 0 else 3"),
    ("int_of_div", "int(a / 4)"), ("float_of", "float(a)"), ("str_of", "str(a)"), ("bool_of", "1 if bool(a) else 0"), ("bool_print", "a > b"), ("bool_str", "str(a > b)"),
    ("fstring", 'f"x={a} y={b}"'), ("fstring_expr", 'f"{a + b}!"'), ("len_lit", 'len("abc")'),
    ("str_concat", 'str(a) + ":" + str(b)'),
    ("prec1", "a + b * 2"), ("prec2", "(a + b) * 2"), ("prec3", "a - b - 3"), ("prec4", "a - (b - 3)"),
    ("prec5", "-a * b"), ("prec6", "a * -b"), ("prec7", "a // 4 * 4"), ("prec8", "a % 7 - 3"),
    ("floordiv_const", "a // 4"), ("mod_const", "a % 10"), ("floordiv_neg_const", "a // -3"),
    ("truediv_const", "a / 4"), ("truediv_float", "a / 4.0"), ("mul_float", "a * 0.5"),
    ("mixed_cmp", "1 if (a / 2 > b) else 0"), ("abs_diff", "abs(a - b)"), ("min_abs", "min(abs(a), abs(b))"),
    ("round_div", "round(a / 4)"),
]

FLOAT_EXPRS = [
    ("fadd", "x + y"), ("fsub", "x - y"), ("fmul", "x * y"), ("flt", "1 if x < y else 0"), ("fint", "int(x)"),
    ("fabs", "abs(x)"), ("fmax", "max(x, y)"), ("fneg", "-x"), ("fmix", "x + a"), ("fbool", "1 if (x > 0.0 and y > 0.0) else 0"),
    ("fstr", 'f"v={x}"'),
]


def expr_family() -> List[Tuple[str, str]]:
    out = []
    for name, e in INT_EXPRS:
        body = READ_AB + f"    mon.write({e})\n"
        out.append((f"expr/{name}", _loop(body)))
    for name, e in FLOAT_EXPRS:
        body = READ_AB + "    x = a / 4.0\n    y = b * 0.5\n" + f"    mon.write({e})\n"
        out.append((f"expr/{name}", _loop(body)))
    # side-effecting operands: evaluation order and multiplicity (min/max are macros on the device)
    for name, e in [("min_call", 'min(analog_read("A0"), analog_read("A1"))'),
                    ("max_call", 'max(analog_read("A0"), 100)'),
                    ("abs_call", 'abs(analog_read("A0") - 512)'),
                    ("and_call", '1 if (analog_read("A0") > 512 and analog_read("A1") > 512) else 0'),
                    ("or_call", '1 if (analog_read("A0") > 512 or analog_read("A1") > 512) else 0'),
                    ("chain_call", '1 if (100 < analog_read("A0") < 900) else 0'),
                    ("ifexp_call", 'analog_read("A0") if analog_read("A1") > 512 else 0'),
                    ("order_call", 'analog_read("A0") - analog_read("A1")')]:
        out.append((f"expr/{name}", _loop(f"    mon.write({e})\n")))
    return out


# ------------------------------------------------------------------ stmt family
STMTS: Dict[str, str] = {
    "assign_chain": '''
x = a
y = x + 1
x = y * 2
mon.write(x)
mon.write(y)
''',
    "swap": '''
x = a
y = b
x, y = y, x
mon.write(x)
mon.write(y)
''',
    "swap_expr": '''
x = a
y = b
x, y = y - x, x + y
mon.write(x)
mon.write(y)
''',
    "rotate3": '''
x = a
y = b
z = 7
x, y, z = y, z, x
mon.write(x)
mon.write(y)
mon.write(z)
''',
    "tuple_unpack": '''
x, y = a + 1, b - 1
mon.write(x)
mon.write(y)
''',
    "augops": '''
x = a
x += b
x -= 3
x *= 2
mon.write(x)
''',
    "aug_floordiv": '''
x = a
x //= 4
mon.write(x)
''',
    "aug_mod": '''
x = a
x %= 7
mon.write(x)
''',
    "if_else": '''
if a > b:
    mon.write(1)
else:
    mon.write(2)
mon.write(3)
''',
    "if_elif_else": '''
if a > 100:
    mon.write("hi")
elif a > 0:
    mon.write("mid")
elif a > -100:
    mon.write("low")
else:
    mon.write("neg")
''',
    "if_no_else": '''
if a > 0:
    mon.write(a)
mon.write(b)
''',
    "if_pass": '''
if a == 4:
    pass
elif a < 6:
    mon.write("low")
else:
    mon.write("high")
''',
    "elif_pass": '''
if a < -100:
    mon.write("low")
elif a < 100:
    pass
else:
    mon.write("high")
mon.write("end")
''',
    "elif_print_only": '''
if a < -100:
    mon.write("low")
elif a < 100:
    print("host only")
elif a < 200:
    mon.write("mid")
else:
    mon.write("high")
''',
    "derived_after_loop": '''
base = 1
for i in range(4):
    base = base + i
limit = base * 2
mon.write(limit)
''',
    "nested_if": '''
if a > 0:
    if b > 0:
        mon.write("pp")
    else:
        mon.write("pn")
else:
    if b > 0:
        mon.write("np")
mon.write("end")
''',
    "oneline_if": '''
if a > 0: mon.write(1)
mon.write(2)
''',
    "while_counter": '''
n = 0
while n < 3:
    mon.write(n)
    n += 1
mon.write(n)
''',
    "while_sensor": '''
n = a
k = 0
while n > 400 and k < 3:
    n -= 50
    k += 1
mon.write(k)
''',
    "while_break": '''
n = 0
while n < 5:
    if n == a:
        break
    n += 1
mon.write(n)
''',
    "for_range_lit": '''
for i in range(3):
    mon.write(i + a)
''',
    "for_range_var": '''
n = 2
for i in range(n):
    mon.write(i)
mon.write(n)
''',
    "for_range_expr": '''
n = 1
for i in range(n + 2):
    mon.write(i * a)
''',
    "for_range_two": '''
for i in range(1, 4):
    mon.write(i)
''',
    "for_range_step": '''
for i in range(0, 6, 2):
    mon.write(i)
''',
    "for_range_neg": '''
for i in range(3, 0, -1):
    mon.write(i)
''',
    "for_break": '''
for i in range(4):
    if i == 2:
        break
    mon.write(i)
mon.write(9)
''',
    "for_continue": '''
for i in range(4):
    if i == 1:
        continue
    mon.write(i)
''',
    "while_continue": '''
n = 0
while n < 4:
    n += 1
    if n == 2:
        continue
    mon.write(n)
''',
    "nested_loops": '''
for i in range(2):
    for j in range(2):
        mon.write(i * 10 + j)
''',
    "loop_in_if": '''
if a > 0:
    for i in range(2):
        mon.write(i)
else:
    mon.write(7)
''',
    "for_after_value": '''
for i in range(3):
    mon.write(i)
mon.write(i)
''',
    "branch_var": '''
if a > 0:
    r = 1
else:
    r = 2
mon.write(r)
''',
    "loop_var": '''
s = 0
for i in range(3):
    t = i * 2
    s += t
mon.write(s)
''',
    "sleep_var": '''
d = 10
sleep(d)
sleep(d + 5)
mon.write(d)
''',
    "sleep_sensor": '''
sleep(a + 512)
mon.write(1)
''',
    "led_branch": '''
if a > 0:
    led.on()
else:
    led.off()
led.toggle()
''',
    "core_io": '''
v = digital_read(2)
if v == HIGH:
    digital_write(7, LOW)
else:
    digital_write(7, HIGH)
analog_write(5, 128)
''',
    "try_plain": '''
try:
    mon.write(a)
except:
    mon.write(0)
mon.write(1)
''',
    "list_index": '''
xs = [1, 2, 3]
mon.write(xs[0] + xs[2])
mon.write(len(xs))
''',
    "list_loop": '''
xs = [4, 5, 6]
for i in range(3):
    mon.write(xs[i])
''',
    "list_neg_index": '''
xs = [4, 5, 6]
mon.write(xs[-1])
''',
    "membership": '''
xs = [1, 2, 3]
if 2 in xs:
    mon.write(1)
else:
    mon.write(0)
''',
    "bool_var": '''
f = a > 0
if f:
    mon.write(1)
mon.write(2)
''',
    "str_var": '''
s = "abc"
mon.write(s)
mon.write(len(s))
''',
    "comment_lines": '''
# leading comment
x = a  # trailing comment
    # oddly indented comment
mon.write(x)  # another
''',
}

FUNCS: Dict[str, Tuple[str, str]] = {
    "fn_add": ('''
def add(p, q):
    return p + q
''', '''
mon.write(add(a, b))
mon.write(add(1, 2))
'''),
    "fn_two": ('''
def dbl(p):
    return p * 2

def inc(p):
    return p + 1
''', '''
mon.write(dbl(inc(a)))
mon.write(inc(dbl(b)))
'''),
    "fn_void": ('''
def report(v):
    mon.write(v)
    mon.write(v + 1)
''', '''
report(a)
report(3)
'''),
    "fn_branch_return": ('''
def sign(v):
    if v > 0:
        return 1
    elif v < 0:
        return -1
    return 0
''', '''
mon.write(sign(a))
'''),
    "fn_loop": ('''
def total(n):
    s = 0
    for i in range(n):
        s += i
    return s
''', '''
mon.write(total(4))
'''),
    "fn_global_read": ('''
base = 5

def shifted(v):
    return v + base
''', '''
mon.write(shifted(a))
'''),
    "fn_local_shadow": ('''
base = 5

def bump(v):
    base = v + 1
    return base
''', '''
mon.write(bump(a))
mon.write(base)
'''),
    "fn_bool_or_int": ('''
def step_for(level):
    if level <= 0:
        return False
    return level * 20
''', '''
mon.write(step_for(a) + 1)
sleep(step_for(3))
'''),
    "fn_recursive": ('''
def depth(n):
    if n <= 0:
        return 0
    below = depth(n - 1)
    return below + 2
''', '''
mon.write(depth(3))
'''),
    "fn_early_return": ('''
def clampv(v):
    if v > 100:
        return 100
    return v
''', '''
mon.write(clampv(a))
mon.write(clampv(b))
'''),
    "fn_default_device": ('''
def blink_twice():
    led.on()
    sleep(5)
    led.off()
''', '''
blink_twice()
mon.write(1)
'''),
}

PLACEMENTS = ("loop", "setup")


def stmt_family(tier="quick") -> List[Tuple[str, str]]:
    out = []
    for name, body in STMTS.items():
        pre = "led = Led(13)\n" if "led." in body else ""
        # main loop placement
        out.append((f"stmt/{name}/loop", _loop(READ_AB + _ind(body), pre)))
        # setup placement (before the main loop) + a minimal loop
        setup_src = HEADER + pre + 'a = analog_read("A0") - 512\nb = analog_read("A1") - 512\n' + body.strip("\n") + "\n" \
            + "while True:\n    mon.write(0)\n"
        if tier == "thorough" or name in ("swap", "if_elif_else", "for_continue", "while_counter", "branch_var", "derived_after_loop",
                                          "elif_pass",
                                          "list_loop", "augops", "for_range_var"):
            out.append((f"stmt/{name}/setup", setup_src))
        if tier == "thorough":
            # inside a helper function body
            fn_src = HEADER + pre + "def work(a, b):\n" + _ind(body) + "while True:\n" + READ_AB + "    work(a, b)\n"
            out.append((f"stmt/{name}/function", fn_src))
    for name, (defs, use) in FUNCS.items():
        pre = ("led = Led(13)\n" if "led." in defs else "") + defs.strip("\n") + "\n"
        out.append((f"stmt/{name}/loop", _loop(READ_AB + _ind(use), pre)))
    # cross-pass persistence
    out.append(("stmt/persist_counter", _loop(READ_AB + "    count += 1\n    mon.write(count)\n", "count = 0\n")))
    out.append(("stmt/persist_accumulate", _loop(READ_AB + "    total = total + a\n    mon.write(total)\n", "total = 10\n")))
    out.append(("stmt/persist_toggle", _loop("    flag = not flag\n    mon.write(1 if flag else 0)\n", "flag = False\n")))
    out.append(("stmt/persist_first_in_loop", _loop(READ_AB + "    last = a\n    mon.write(last)\n")))
    out.append(("stmt/persist_list", _loop(READ_AB + "    xs.append(a)\n    mon.write(len(xs))\n    mon.write(xs[0])\n",
                                           "xs = [1]\n")))
    out.append(("stmt/main_continue", _loop(READ_AB + "    if a > 0:\n        continue\n    mon.write(a)\n")))
    out.append(("stmt/main_continue_after", _loop(READ_AB + "    mon.write(b)\n    if a > 0:\n        continue\n    mon.write(a)\n    sleep(5)\n")))
    out.append(("stmt/no_main_loop", HEADER + 'v = analog_read("A0")\nmon.write(v)\nmon.write(v + 1)\n'))
    out.append(("stmt/setup_then_loop", HEADER + 'mon.write("boot")\nk = 3\nwhile True:\n    mon.write(k)\n    k += 1\n'))
    return out


# ------------------------------------------------------------------ types family (C02)
TYPE_CASES: Dict[str, str] = {
    "int_then_float": '''
x = 1
x = a / 4.0
mon.write(x)
''',
    "float_then_int": '''
x = a / 4.0
mon.write(x)
x = 3
mon.write(x)
''',
    "int_then_float_lit": '''
x = 1
x = 2.5
mon.write(x)
''',
    "float_in_branch": '''
x = 0
if a > 0:
    x = a / 4.0
mon.write(x)
''',
    "float_in_loop": '''
x = 0
for i in range(2):
    x = x + 0.5
mon.write(x)
''',
    "aug_float": '''
x = 1
x += 0.5
mon.write(x)
''',
    "aug_truediv": '''
x = a
x /= 4
mon.write(x)
''',
    "branch_first_float": '''
if a > 0:
    r = 0.5
else:
    r = 2
mon.write(r)
''',
    "branch_first_int": '''
if a > 0:
    r = 2
else:
    r = 0.5
mon.write(r)
''',
    "loop_first": '''
for i in range(2):
    t = i * 0.5
mon.write(t)
''',
    "str_var": '''
s = "v"
s = s + str(a)
mon.write(s)
''',
    "str_then_number": '''
s = "v"
mon.write(s)
n = 5
mon.write(n)
''',
    "bool_arith": '''
f = a > 0
n = f + 1
mon.write(n)
''',
    "mixed_expr": '''
n = a + 0.5
m = n * 2
mon.write(m)
''',
    "int_div_result": '''
q = a / 4
mon.write(q)
''',
    "swap_types": '''
p = a / 4.0
q = b
p, q = q, p
mon.write(p)
mon.write(q)
''',
    "shift_types": '''
avg = a * 0.5
last = 0
avg, last = a, avg
mon.write(last)
mon.write(avg)
''',
    "shift_types_new": '''
avg = a * 0.5
avg, last = a, avg
mon.write(last)
mon.write(avg)
''',
    "tuple_new_mixed": '''
p, q = a / 4.0, b
r, p = p, q
mon.write(r)
mon.write(p)
''',
    "ternary_mixed": '''
v = 0.5 if a > 0 else 2
mon.write(v)
''',
    "min_mixed": '''
v = min(a, 0.5)
mon.write(v)
''',
    "abs_float": '''
v = abs(a / 4.0)
mon.write(v)
''',
    "int_cast": '''
v = int(a / 4.0)
mon.write(v)
''',
    "float_cast": '''
v = float(a)
mon.write(v / 2)
''',
    "comp_var_shadows_float": '''
step = 0.25
ramp = [step * 4 for step in range(4)]
total = step + 1
half = step * 2
mon.write(total)
mon.write(half)
mon.write(ramp[2])
''',
    "comp_var_shadows_str": '''
tag = "v"
idx = [tag * 2 for tag in range(3)]
label = tag + str(a)
mon.write(label)
mon.write(idx[1])
''',
    "comp_then_new_float": '''
sq = [k * k for k in range(3)]
k = a / 4.0
m = k + 1
mon.write(m)
''',
    "hoist_then_use": '''
if a > 0:
    gain = 1.5
else:
    gain = 0.5
level = a * gain
mon.write(level)
''',
    "try_hoist": '''
try:
    g = 0.25
except:
    g = 1
mon.write(a * g)
''',
}

TYPE_FUNCS: Dict[str, Tuple[str, str]] = {
    "ret_float": ('''
def half(v):
    return v / 2.0
''', 'mon.write(half(a))\n'),
    "ret_join": ('''
def pick(v):
    if v > 0:
        return 1
    return 0.5
''', 'mon.write(pick(a))\n'),
    "ret_join_rev": ('''
def pick(v):
    if v > 0:
        return 0.5
    return 1
''', 'mon.write(pick(a))\n'),
    "param_float": ('''
def scale(v):
    return v * 2
''', 'mon.write(scale(a / 4.0))\n'),
    "param_two_sites": ('''
def scale(v):
    return v * 2
''', 'mon.write(scale(a))\nmon.write(scale(0.5))\n'),
    "param_two_sites_rev": ('''
def scale(v):
    return v * 2
''', 'mon.write(scale(0.5))\nmon.write(scale(a))\n'),
    "ret_str": ('''
def label(v):
    return "n" + str(v)
''', 'mon.write(label(a))\n'),
    "ret_bool": ('''
def pos(v):
    return v > 0
''', 'if pos(a):\n    mon.write(1)\nmon.write(2)\n'),
    "local_float": ('''
def avg(p, q):
    s = p + q
    return s / 2
''', 'mon.write(avg(a, b))\n'),
    "param_rebound_float": ('''
def settle(reading):
    reading = reading * 0.5 + 0.25
    return reading
''', 'mon.write(settle(3))\nmon.write(settle(a))\n'),
    "param_aug_float": ('''
def nudge(p):
    p += 0.5
    return p
''', 'mon.write(nudge(a))\n'),
    "param_rebound_in_branch": ('''
def halve(p):
    if p > 10:
        p = p / 2.0
    return p
''', 'mon.write(halve(a))\n'),
    "param_copy_rebound": ('''
def soften(p):
    q = p
    q = q * 0.5
    return q
''', 'mon.write(soften(a))\n'),
    "param_rebound_two_params": ('''
def mix(p, q):
    q = q * 0.25
    return p + q
''', 'mon.write(mix(a, b))\nmon.write(mix(1, 2))\n'),
    "recursive_float": ('''
def backoff(n):
    if n <= 0:
        return 0.5
    previous = backoff(n - 1)
    return previous * 1.5
''', 'mon.write(backoff(2))\n'),
    "recursive_float_param": ('''
def grow(n, x):
    if n <= 0:
        return x
    return grow(n - 1, x * 1.5)
''', 'mon.write(grow(2, a))\n'),
    "loop_int_then_aug_float": ('''
def settle(n):
    level = 0
    for i in range(n):
        level = i
        level += 0.5
    return level
''', 'mon.write(settle(3))\n'),
    "hoist_in_fn": ('''
def boost(v):
    if v > 0:
        k = 1.5
    else:
        k = 0.5
    return v * k
''', 'mon.write(boost(a))\n'),
}


def types_family(tier="quick") -> List[Tuple[str, str]]:
    out = []
    for name, body in TYPE_CASES.items():
        out.append((f"types/{name}/loop", _loop(READ_AB + _ind(body))))
        if tier == "thorough" or name in ("int_then_float", "float_in_branch", "branch_first_int", "hoist_then_use"):
            setup_src = HEADER + 'a = analog_read("A0") - 512\nb = analog_read("A1") - 512\n' + body.strip("\n") + "\n" \
                + "while True:\n    mon.write(0)\n"
            out.append((f"types/{name}/setup", setup_src))
        if tier == "thorough":
            fn_src = HEADER + "def work(a, b):\n" + _ind(body) + "while True:\n" + READ_AB + "    work(a, b)\n"
            out.append((f"types/{name}/function", fn_src))
    for name, (defs, use) in TYPE_FUNCS.items():
        out.append((f"types/{name}/loop", _loop(READ_AB + _ind(use), defs.strip("\n") + "\n")))
        # the same calls with their results routed through variables (call-site typing is per call shape)
        lines = use.strip("\n").split("\n")
        if all(ln.startswith("mon.write(") and ln.endswith(")") for ln in lines):
            assigns = "".join(f"r{i} = {ln[len('mon.write('):-1]}\n" for i, ln in enumerate(lines))
            writes = "".join(f"mon.write(r{i})\n" for i in range(len(lines)))
            out.append((f"types/{name}/assign_loop", _loop(READ_AB + _ind(assigns + writes), defs.strip("\n") + "\n")))
            setup_src = HEADER + defs.strip("\n") + "\n" + 'a = analog_read("A0") - 512\nb = analog_read("A1") - 512\n' \
                + assigns + writes + "while True:\n" + _ind(writes)
            out.append((f"types/{name}/assign_setup", setup_src))
    # globals assigned with different types in setup vs loop
    out.append(("types/global_int_loop_float", _loop(READ_AB + "    g = a / 4.0\n    mon.write(g)\n", "g = 0\n")))
    out.append(("types/global_float_loop_int", _loop(READ_AB + "    mon.write(g)\n    g = a\n", "g = 0.5\n")))
    out.append(("types/global_acc_float", _loop(READ_AB + "    acc = acc + a / 4.0\n    mon.write(acc)\n", "acc = 0\n")))
    return out


# ------------------------------------------------------------------ fold family (C03): metamorphic pairs
def fold_family(tier="quick") -> List[Tuple[str, str]]:
    H2 = HEADER.replace("from Reduino.Actuators import Led, RGBLed\n", "from Reduino.Actuators import Led, RGBLed\n")
    cases: Dict[str, str] = {}
    # literal vs variable-routed delays
    cases["sleep_lit"] = H2 + "while True:\n    sleep(100 + 50)\n    mon.write(1)\n"
    cases["sleep_var"] = H2 + "d = 100\nwhile True:\n    sleep(d + 50)\n    mon.write(1)\n"
    cases["sleep_var_mut_branch"] = H2 + "d = 100\nwhile True:\n" + READ_AB + \
        "    if a > 0:\n        d = 200\n    sleep(d)\n    mon.write(d)\n"
    cases["sleep_var_mut_loop"] = H2 + "d = 100\nwhile True:\n    for i in range(2):\n        d = d + 10\n    sleep(d)\n"
    cases["sleep_var_mut_prev_pass"] = H2 + "d = 10\nwhile True:\n    sleep(d)\n    d = d + 5\n"
    # len of tracked values
    cases["len_list_lit"] = H2 + "xs = [1, 2, 3]\nwhile True:\n    mon.write(len(xs))\n"
    cases["len_after_append"] = H2 + "xs = [1, 2]\nxs.append(3)\nwhile True:\n    mon.write(len(xs))\n"
    cases["len_append_runtime"] = H2 + "xs = [1, 2]\nwhile True:\n" + READ_AB + "    xs.append(a)\n    mon.write(len(xs))\n"
    cases["len_append_branch"] = H2 + "xs = [1, 2]\nwhile True:\n" + READ_AB + \
        "    if a > 0:\n        xs.append(7)\n    mon.write(len(xs))\n"
    cases["len_append_loop"] = H2 + "xs = [1]\nwhile True:\n    for i in range(2):\n        xs.append(i)\n    mon.write(len(xs))\n"
    cases["len_remove"] = H2 + "xs = [1, 2, 3]\nxs.remove(2)\nwhile True:\n    mon.write(len(xs))\n    mon.write(xs[1])\n"
    cases["len_remove_branch"] = H2 + "xs = [1, 2, 3]\nwhile True:\n" + READ_AB + \
        "    if a > 0:\n        xs.remove(2)\n    mon.write(len(xs))\n"
    cases["len_append_runtime_setup"] = H2 + 'xs = [1, 2]\nxs.append(7)\nv = analog_read("A0")\nxs.append(v)\nwhile True:\n    mon.write(len(xs))\n    mon.write(xs[3])\n'
    cases["len_append_runtime_then_const"] = H2 + 'xs = [1]\nv = analog_read("A0")\nxs.append(v)\nxs.append(5)\nwhile True:\n    sleep(len(xs) * 10)\n'
    cases["len_remove_runtime_setup"] = H2 + 'xs = [1, 2, 3]\nv = analog_read("A0")\nxs.remove(v)\nwhile True:\n    mon.write(len(xs))\n'
    cases["len_str"] = H2 + 's = "abc"\nwhile True:\n    mon.write(len(s))\n'
    cases["len_str_reassign_branch"] = H2 + 's = "abc"\nwhile True:\n' + READ_AB + \
        '    if a > 0:\n        s = "abcdef"\n    mon.write(len(s))\n'
    cases["len_swap"] = H2 + 'p = "x"\nq = "yyy"\np, q = q, p\nwhile True:\n    sleep(len(p) * 100)\n    sleep(len(q) * 100)\n'
    cases["len_alias_same_literal"] = H2 + "u = [1, 2]\nw = [1, 2]\nu.append(3)\nwhile True:\n    mon.write(len(w))\n    mon.write(len(u))\n"
    # constants through arithmetic
    cases["const_expr"] = H2 + "k = 2 * 3 + 1\nwhile True:\n    mon.write(k)\n    sleep(k * 10)\n"
    cases["const_floor"] = H2 + "k = 7 // 2\nm = -7 // 2\nwhile True:\n    mon.write(k)\n    mon.write(m)\n"
    cases["const_mod"] = H2 + "k = -7 % 3\nwhile True:\n    mon.write(k)\n"
    cases["const_div"] = H2 + "k = 7 / 2\nwhile True:\n    mon.write(k)\n"
    cases["const_reassign_in_branch"] = H2 + "k = 1\nwhile True:\n" + READ_AB + \
        "    if a > 0:\n        k = 2\n    else:\n        k = 3\n    sleep(k * 10)\n    mon.write(k)\n"
    cases["const_reassign_in_while"] = H2 + "k = 1\nwhile True:\n    n = 0\n    while n < 2:\n        k = k + 1\n        n += 1\n    sleep(k)\n"
    cases["const_in_fn"] = H2 + "k = 4\ndef wait():\n    sleep(k * 5)\nwhile True:\n    wait()\n    k = k + 1\n"
    # led arguments
    cases["led_pin_var"] = H2 + "p = 5\nled = Led(p)\nwhile True:\n    led.toggle()\n"
    cases["led_pin_expr"] = H2 + "p = 5\nled = Led(p + 1)\nwhile True:\n    led.on()\n    led.off()\n"
    cases["brightness_lit"] = H2 + "led = Led(9)\nwhile True:\n    led.set_brightness(100 + 28)\n"
    cases["brightness_var"] = H2 + "led = Led(9)\nlevel = 100\nwhile True:\n    led.set_brightness(level + 28)\n"
    cases["brightness_var_mut"] = H2 + "led = Led(9)\nlevel = 100\nwhile True:\n" + READ_AB + \
        "    if a > 0:\n        level = 200\n    led.set_brightness(level)\n"
    cases["blink_var"] = H2 + "led = Led(9)\nn = 2\nd = 20\nwhile True:\n    led.blink(d, n)\n"
    cases["blink_var_mut"] = H2 + "led = Led(9)\nn = 1\nwhile True:\n    led.blink(10, n)\n    n = n + 1\n"
    cases["flash_pattern_lit"] = H2 + "led = Led(9)\nwhile True:\n    led.flash_pattern([1, 0, 1], 10)\n"
    cases["flash_pattern_name"] = H2 + "led = Led(9)\npat = [1, 0, 1]\nwhile True:\n    led.flash_pattern(pat, 10)\n"
    cases["flash_pattern_name_mut"] = H2 + "led = Led(9)\npat = [1, 0]\nwhile True:\n" + READ_AB + \
        "    if a > 0:\n        pat.append(1)\n    led.flash_pattern(pat, 10)\n"
    cases["flash_pattern_append_runtime"] = H2 + "led = Led(9)\npat = [1, 0]\npat.append(1)\nwhile True:\n    led.flash_pattern(pat, 10)\n"
    cases["rgb_lit"] = H2 + "rgb = RGBLed(3, 5, 6)\nwhile True:\n    rgb.set_color(10 + 5, 2 * 10, 30)\n"
    cases["rgb_var"] = H2 + "rgb = RGBLed(3, 5, 6)\nr = 10\nwhile True:\n    rgb.set_color(r + 5, r * 2, 30)\n"
    cases["rgb_var_mut"] = H2 + "rgb = RGBLed(3, 5, 6)\nr = 10\nwhile True:\n    rgb.set_color(r, 0, 0)\n    r = r + 10\n"
    # mutually exclusive arms: what one arm assigns must not be visible when folding a sibling arm (prologue: runs once)
    RD = 'v = analog_read("A0")\n'
    TAIL = "while True:\n    mon.write(0)\n"
    cases["sibling_str_len_else"] = H2 + 's = "ab"\n' + RD + 'if v > 500:\n    s = "abcd"\n    mon.write(1)\nelse:\n    mon.write(len(s))\nmon.write(s)\n' + TAIL
    cases["sibling_str_len_elif"] = H2 + 's = "ab"\n' + RD + 'if v > 500:\n    s = "abcd"\nelif v > 100:\n    mon.write(len(s))\nelse:\n    sleep(len(s) * 10)\n' + TAIL
    cases["sibling_list_len_else"] = H2 + 'xs = [1, 2]\n' + RD + 'if v > 500:\n    xs.append(3)\n    mon.write(1)\nelse:\n    mon.write(len(xs))\n' + TAIL
    cases["sibling_pattern_else"] = H2 + 'led = Led(9)\npat = [1, 0]\n' + RD + 'if v > 500:\n    pat = [0, 1, 1]\n    mon.write(1)\nelse:\n    led.flash_pattern(pat, 10)\n' + TAIL
    cases["sibling_const_sleep_else"] = H2 + 'k = 1\n' + RD + 'if v > 500:\n    k = 2\n    mon.write(1)\nelse:\n    sleep(k * 10)\n    mon.write(k)\n' + TAIL
    cases["sibling_const_nested"] = H2 + 'k = 1\n' + RD + 'if v > 500:\n    if v > 900:\n        k = 5\n    else:\n        sleep(k * 10)\nelse:\n    sleep(k * 20)\n' + TAIL
    cases["sibling_try_except"] = H2 + 'k = 1\ntry:\n    k = 2\n    sleep(k * 10)\nexcept:\n    sleep(k * 30)\nmon.write(7)\n' + TAIL
    # a parameter hides a global constant of the same name
    cases["param_shadows_const_int"] = H2 + "k = 4\ndef wait(k):\n    sleep(k * 5)\nwhile True:\n" + READ_AB + "    wait(a + 600)\n    wait(3)\n"
    cases["param_shadows_const_str"] = H2 + 'text = "ab"\ndef count_chars(text):\n    return len(text)\nn = count_chars("hello")\nmon.write(n)\nwhile True:\n    sleep(n * 10)\n    mon.write(len(text))\n'
    cases["param_shadows_const_list"] = H2 + 'xs = [1, 2]\nys = [4, 5, 6]\ndef size(xs):\n    return len(xs)\nn = size(ys)\nmon.write(n)\nwhile True:\n    sleep(n * 10)\n    mon.write(len(xs))\n'
    cases["param_shadows_pin"] = H2 + "pin = 9\ndef level(pin):\n    return pin + 1\nled = Led(pin)\nwhile True:\n" + READ_AB + "    led.set_brightness(level(a + 600) // 8)\n"
    cases["local_shadows_const"] = H2 + "k = 4\ndef wait(n):\n    k = n + 1\n    sleep(k * 5)\nwhile True:\n" + READ_AB + "    wait(a + 600)\n    sleep(k)\n"
    cases["chained_cmp_false_tail"] = H2 + "while True:\n    sleep(100 if 1 <= 5 <= 3 else 20)\n    sleep(10 + (5 if 2 < 9 < 8 else 1))\n"
    cases["chained_cmp_const_var"] = H2 + 'level = 9\nlabel = "OK" if 2 < level < 8 else "ALARM"\npad = 16 - len(label)\nwhile True:\n    sleep(pad * 10)\n    mon.write(label)\n'
    cases["chained_cmp_three"] = H2 + "k = 3 if 1 < 2 < 3 < 2 else 7\nwhile True:\n    sleep(k * 10)\n"
    cases["derived_after_branch"] = H2 + "base = 200\n" + RD + "if v > 512:\n    base = 50\nperiod = base * 2\n" + "while True:\n    sleep(period)\n    mon.write(period)\n"
    cases["derived_after_loop"] = H2 + "base = 1\nfor i in range(4):\n    base = base + i\nlimit = base * 2\nwhile True:\n    sleep(limit)\n    mon.write(limit)\n"
    cases["derived_after_try"] = H2 + "base = 1\ntry:\n    base = 5\nexcept:\n    base = 9\nlimit = base + 1\nwhile True:\n    sleep(limit * 10)\n"
    cases["derived_after_global_fn"] = H2 + "count = 0\ndef bump():\n    global count\n    count += 1\nbump()\ntotal = count + 1\nwhile True:\n    sleep(total * 10)\n    mon.write(total)\n"
    cases["tuple_consts"] = H2 + "p, q = 3, 4\np, q = q, p + q\nwhile True:\n    sleep(p * 10)\n    sleep(q * 10)\n"
    return [(f"fold/{k}", v) for k, v in cases.items()]


# ------------------------------------------------------------------ dev family (C04/C05)
DEV_HEADER = '''from Reduino import target
target("COM3", upload=False)
from Reduino.Communication import SerialMonitor
from Reduino.Core import analog_read
from Reduino.Utils import sleep
from Reduino.Actuators import Led, RGBLed, Servo, DCMotor
from Reduino.Sensors import Button, Potentiometer
mon = SerialMonitor(9600, "COM3")
'''


# ------------------------------------------------------------------ feature scripts (C06 / C14 / C16 / C17 inputs)
FEATURE_HEADER = '''from Reduino import target
target("COM3", upload=False)
from Reduino.Communication import SerialMonitor
from Reduino.Core import analog_read, digital_read, digital_write, analog_write, pin_mode, OUTPUT, INPUT, INPUT_PULLUP, HIGH, LOW
from Reduino.Utils import sleep, map
from Reduino.Actuators import Led, RGBLed, Servo, DCMotor, Buzzer
from Reduino.Sensors import Button, Potentiometer, Ultrasonic
from Reduino.Displays import LCD
'''


def feature_family() -> List[Tuple[str, str]]:
    H = FEATURE_HEADER
    M = 'mon = SerialMonitor(9600, "COM3")\n'
    F: Dict[str, str] = {}
    F["readme_led"] = H + 'led = Led(9)\nled.set_brightness(128)\nled.blink(200, times=3)\nsleep(500)\nled.off()\n'
    F["readme_rgb"] = H + 'rgb = RGBLed(9, 10, 11)\nrgb.set_color(0, 128, 255)\nrgb.fade(255, 0, 0, duration_ms=1500)\nsleep(300)\nrgb.off()\n'
    F["readme_buzzer"] = H + 'bz = Buzzer(8)\nbz.melody("startup")\nsleep(500)\nbz.beep(frequency=880, on_ms=100, off_ms=100, times=3)\nbz.stop()\n'
    F["readme_servo"] = H + 's = Servo(9)\ns.write(90)\nsleep(500)\ns.write(0)\n'
    F["readme_motor"] = H + 'motor = DCMotor(4, 5, 6)\nmotor.set_speed(0.4)\nmotor.run_for(1500, speed=1.0)\nmotor.ramp(-1.0, duration_ms=800)\nsleep(250)\nmotor.stop()\n'
    F["readme_lcd_parallel"] = H + 'lcd = LCD(rs=12, en=11, d4=5, d5=4, d6=3, d7=2, backlight_pin=9)\nlcd.message("Setup complete", bottom="Waiting", top_align="center")\nlcd.progress(1, 30, max_value=100, width=12, label="Load")\nlcd.brightness(200)\n'
    F["readme_lcd_i2c"] = H + 'panel = LCD(i2c_addr=0x27, cols=20, rows=4)\npanel.glyph(0, [0, 2, 5, 8, 8, 5, 2, 0])\npanel.line(0, "Ready to scroll", align="center")\npanel.animate("scroll", 2, "This text scrolls without blocking!", speed_ms=150, loop=True)\n'
    F["readme_button"] = H + 'led = Led(6)\nbtn = Button(7)\nif btn.is_pressed():\n    led.toggle()\n'
    F["readme_pot"] = H + M + 'pot = Potentiometer("A0")\nwhile True:\n    value = pot.read()\n    mon.write(value)\n'
    F["readme_ultrasonic"] = H + 'u = Ultrasonic(trig=9, echo=10)\nd = u.measure_distance()\nprint(d)\nsleep(60)\n'
    F["readme_map"] = H + 'mapped = map(512, 0, 1023, 0.0, 5.0)\nprint(mapped)\n'
    F["readme_core"] = H + 'pin_mode(7, OUTPUT)\ndigital_write(7, HIGH)\nif digital_read(2) == HIGH:\n    digital_write(7, LOW)\n'
    F["readme_swap"] = H + M + 'a = 1\nb = 2\na, b = b, a\nmon.write(a)\n'
    F["readme_listcomp"] = H + M + 'squares = [i for i in range(10)]\nmon.write(len(squares))\nmon.write(squares[3])\n'
    F["button_callback"] = H + 'led = Led(13)\ndef clicked():\n    led.toggle()\nbtn = Button(2, on_click=clicked)\nwhile True:\n    sleep(10)\n'
    F["button_callback_serial"] = H + M + 'def clicked():\n    mon.write("click")\nbtn = Button(2, on_click=clicked)\nwhile True:\n    if btn.is_pressed():\n        mon.write("held")\n'
    F["ultrasonic_loop"] = H + M + 'u = Ultrasonic(7, 8)\nwhile True:\n    d = u.measure_distance()\n    mon.write(d)\n    if d < 10:\n        mon.write("near")\n'
    F["ultrasonic_in_fn"] = H + M + 'u = Ultrasonic(7, 8)\ndef near():\n    return u.measure_distance() < 10\nwhile True:\n    if near():\n        mon.write(1)\n'
    F["buzzer_all"] = H + 'bz = Buzzer(8)\nwhile True:\n    bz.play_tone(440, 100)\n    bz.play_tone(220)\n    bz.stop()\n    bz.beep(880, on_ms=50, off_ms=50, times=2)\n    bz.sweep(200, 800, duration_ms=300, steps=4)\n    bz.melody("success")\n    bz.melody("alarm", tempo=300)\n'
    F["buzzer_getters"] = H + M + 'bz = Buzzer(8)\nwhile True:\n    bz.play_tone(440)\n    mon.write(bz.get_frequency())\n    mon.write(bz.get_last_frequency())\n    mon.write(1 if bz.get_state() else 0)\n    bz.stop()\n'
    F["lcd_all_parallel"] = H + 'lcd = LCD(12, 11, 5, 4, 3, 2, cols=16, rows=2, backlight_pin=9)\nwhile True:\n    lcd.write(0, 0, "hello")\n    lcd.line(1, "world", align="right")\n    lcd.message("a", "b")\n    lcd.clear()\n    lcd.display(False)\n    lcd.display(True)\n    lcd.backlight(False)\n    lcd.brightness(100)\n    lcd.glyph(1, [1, 2, 3, 4, 5, 6, 7, 8])\n    lcd.progress(0, 5, max_value=10)\n'
    F["lcd_all_i2c"] = H + 'lcd = LCD(i2c_addr=0x3F, cols=16, rows=2)\nwhile True:\n    lcd.write(2, 1, "x", clear_row=False)\n    lcd.line(0, "centered", align="center")\n    lcd.backlight(True)\n    lcd.progress(1, 3, max_value=7, width=8, label="L", style="hash")\n'
    F["lcd_runtime_text"] = H + 'lcd = LCD(i2c_addr=0x27)\nwhile True:\n    v = analog_read("A0")\n    lcd.line(0, f"v={v}")\n    lcd.progress(1, v, max_value=1023)\n'
    F["lcd_animations"] = H + 'lcd = LCD(i2c_addr=0x27, cols=16, rows=2)\nlcd.animate("scroll", 0, "scrolling text", speed_ms=100, loop=True)\nlcd.animate("blink", 1, "blink", speed_ms=300)\nwhile True:\n    sleep(10)\n'
    F["lcd_anim_types"] = H + 'lcd = LCD(12, 11, 5, 4, 3, 2)\nlcd.animate("typewriter", 0, "typing", speed_ms=50)\nlcd.animate("bounce", 1, "bounce", speed_ms=80, loop=True)\nwhile True:\n    sleep(5)\n'
    F["two_lcds"] = H + 'a = LCD(12, 11, 5, 4, 3, 2)\nb = LCD(i2c_addr=0x27)\na.line(0, "par")\nb.line(0, "i2c")\n'
    F["servo_two"] = H + 's1 = Servo(9)\ns2 = Servo(10, min_angle=10, max_angle=170)\nwhile True:\n    s1.write(20)\n    s2.write_us(1500)\n'
    F["servo_in_loop_only"] = H + 'while True:\n    arm = Servo(9)\n    arm.write(90)\n'
    F["everything"] = H + M + 'led = Led(13)\nrgb = RGBLed(3, 5, 6)\nbz = Buzzer(8)\ns = Servo(9)\nm = DCMotor(4, 7, 11)\npot = Potentiometer("A1")\nu = Ultrasonic(2, 10)\nwhile True:\n    v = pot.read()\n    led.set_brightness(v // 4)\n    rgb.set_color(v // 4, 0, 0)\n    s.write(v // 6)\n    m.set_speed(0.5)\n    mon.write(u.measure_distance())\n    bz.beep(440)\n'
    F["try_except_plain"] = H + M + 'while True:\n    try:\n        mon.write(1)\n    except:\n        mon.write(2)\n'
    F["try_except_named"] = H + M + 'while True:\n    try:\n        mon.write(1)\n    except ValueError:\n        mon.write(2)\n'
    F["try_except_as"] = H + M + 'while True:\n    try:\n        mon.write(1)\n    except Exception as e:\n        mon.write(2)\n'
    F["fn_before_use"] = H + M + 'def twice(v):\n    return v * 2\nwhile True:\n    mon.write(twice(3))\n'
    F["fn_calls_fn_later"] = H + M + 'def outer(v):\n    return inner(v) + 1\ndef inner(v):\n    return v * 2\nwhile True:\n    mon.write(outer(3))\n'
    F["fn_uses_ultrasonic"] = H + M + 'u = Ultrasonic(7, 8)\ndef dist():\n    return u.measure_distance()\nwhile True:\n    mon.write(dist())\n'
    F["fn_str_param"] = H + M + 'def say(t):\n    mon.write(t)\nwhile True:\n    say("hi")\n'
    F["fn_list_param"] = H + M + 'def first(xs):\n    return xs[0]\nwhile True:\n    mon.write(first([4, 5]))\n'
    F["list_ops"] = H + M + 'xs = [1, 2, 3]\nys = []\nwhile True:\n    xs.append(4)\n    xs.remove(1)\n    ys.append(xs[0])\n    mon.write(len(ys))\n'
    F["list_float"] = H + M + 'xs = [0.5, 1.5]\nwhile True:\n    mon.write(xs[1])\n'
    F["list_str"] = H + M + 'names = ["a", "bc"]\nwhile True:\n    mon.write(names[1])\n    mon.write(len(names[1]))\n'
    F["list_comp_expr"] = H + M + 'while True:\n    sq = [i * i for i in range(4)]\n    mon.write(sq[2])\n'
    F["list_assign_copy"] = H + M + 'a = [1, 2]\nb = [3]\nwhile True:\n    b = a\n    mon.write(len(b))\n'
    F["tuple_swaps_twice"] = H + M + 'a = 1\nb = 2\nwhile True:\n    a, b = b, a\n    a, b = b, a\n    mon.write(a)\n'
    F["tuple_swaps_setup_twice"] = H + M + 'a = 1\nb = 2\na, b = b, a\na, b = b, a\nmon.write(a)\n'
    F["pow_op"] = H + M + 'while True:\n    v = analog_read("A0")\n    mon.write(v ** 2)\n'
    F["loop_var_after"] = H + M + 'while True:\n    for i in range(3):\n        mon.write(i)\n    mon.write(i)\n'
    F["undeclared_receiver"] = H + M + 'while True:\n    ghost.on()\n'
    F["get_mode_var"] = H + M + 'm = DCMotor(4, 7, 11)\nwhile True:\n    mode = m.get_mode()\n    mon.write(mode)\n'
    F["strings_quotes"] = H + M + 'while True:\n    mon.write("say \\"hi\\"")\n    mon.write(\'single \\\' quote\')\n    mon.write("back\\\\slash")\n    mon.write("percent %d ?? /* */ //")\n'
    F["strings_unicode"] = H + M + 'while True:\n    mon.write("Waiting\u2026 caf\u00e9")\n'
    F["fstring_quotes"] = H + M + 'while True:\n    v = analog_read("A0")\n    mon.write(f"v=\\"{v}\\" ok")\n'
    F["nested_fn_devices"] = H + 'led = Led(13)\nrgb = RGBLed(3, 5, 6)\ndef alert():\n    led.on()\n    rgb.set_color(255, 0, 0)\n    sleep(10)\n    led.off()\nwhile True:\n    alert()\n'
    F["while_cond_call"] = H + M + 'pot = Potentiometer("A0")\nwhile True:\n    while pot.read() > 900:\n        mon.write("hi")\n    sleep(1)\n'
    F["fn_two_types_forward"] = H + M + 'def show(k):\n    a = twice(k)\n    b = twice("ab")\n    mon.write(a)\n    mon.write(b)\ndef twice(v):\n    return v + v\nwhile True:\n    show(3)\n'
    F["fn_two_types_backward"] = H + M + 'def twice(v):\n    return v + v\ndef show(k):\n    a = twice(k)\n    b = twice("ab")\n    mon.write(a)\n    mon.write(b)\nwhile True:\n    show(3)\n'
    F["fn_two_types_toplevel"] = H + M + 'def twice(v):\n    return v + v\na = twice(4)\nb = twice("ab")\nwhile True:\n    mon.write(a)\n    mon.write(b)\n'
    F["fn_param_reassigned_two_types"] = H + M + 'def clamp(v):\n    if v > 100:\n        v = 100\n    return v\nhalf = 0.5\nlo = clamp(250)\nhi = clamp(half)\nwhile True:\n    mon.write(lo)\n    mon.write(hi)\n'
    F["global_in_fn"] = H + M + 'count = 0\ndef bump():\n    global count\n    count += 1\nwhile True:\n    bump()\n    mon.write(count)\n'
    return [(f"feature/{k}", v) for k, v in F.items()]


# ------------------------------------------------------------------ context x statement product family
# Every statement kind is placed in every block context (so "this statement works in an if-arm" is not taken as
# evidence that it works in an elif-arm, an else-arm, a nested loop, a helper function, a try body or the prologue).
# {S1}/{S2}/{S3} = the statement block indented one/two/three levels.
CTX_LOOP: Dict[str, str] = {
    "top": "{S0}",
    "if": "if a > 0:\n{S1}mon.write(90)\n",
    "elif": "if a > 300:\n    mon.write(80)\nelif a > 0:\n{S1}mon.write(90)\n",
    "else": "if a > 0:\n    mon.write(80)\nelse:\n{S1}mon.write(90)\n",
    "else_after_elif": "if a > 300:\n    mon.write(80)\nelif a > 100:\n    mon.write(81)\nelse:\n{S1}mon.write(90)\n",
    "nested_else": "if b > 0:\n    if a > 0:\n        mon.write(80)\n    else:\n{S2}mon.write(90)\n",
    "for": "for i in range(2):\n{S1}mon.write(90)\n",
    "while": "n = 0\nwhile n < 2:\n    n += 1\n{S1}mon.write(90)\n",
    "for_in_if": "if a > 0:\n    for i in range(2):\n{S2}mon.write(90)\n",
    "if_in_for": "for i in range(2):\n    if i == 1:\n{S2}mon.write(90)\n",
    "elif_in_for": "for i in range(3):\n    if i == 0:\n        mon.write(80)\n    elif i == 1:\n{S2}mon.write(90)\n",
    "else_in_while": "n = 0\nwhile n < 2:\n    n += 1\n    if n == 1:\n        mon.write(80)\n    else:\n{S2}mon.write(90)\n",
    "for_in_for": "for i in range(2):\n    for j in range(2):\n{S2}mon.write(90)\n",
    "try": "try:\n{S1}except:\n    mon.write(70)\nmon.write(90)\n",
}
# more nesting for the thorough tier
CTX_LOOP_THOROUGH: Dict[str, str] = {
    "while_in_if": "if a > 0:\n    n = 0\n    while n < 2:\n        n += 1\n{S2}mon.write(90)\n",
    "try_in_for": "for i in range(2):\n    try:\n{S2}    except:\n        mon.write(70)\nmon.write(90)\n",
    "if_in_try": "try:\n    if a > 0:\n{S2}    else:\n        mon.write(80)\nexcept:\n    mon.write(70)\nmon.write(90)\n",
    "for_in_while": "n = 0\nwhile n < 2:\n    n += 1\n    for i in range(2):\n{S2}mon.write(90)\n",
    "elif_in_elif": "if a > 300:\n    mon.write(80)\nelif a > 0:\n    if b > 300:\n        mon.write(81)\n    elif b > 0:\n{S2}mon.write(90)\n",
    "if_if_if": "if a > 0:\n    if b > 0:\n        if a > b:\n{S3}mon.write(90)\n",
}
# contexts whose innermost enclosing loop is a script-level for/while (break is legal; continue stays inside)
CTX_INNER_LOOP = ("for", "while", "for_in_if", "if_in_for", "elif_in_for", "else_in_while", "for_in_for",
                  "while_in_if", "try_in_for", "for_in_while")

# name -> (globals declared before the main loop, statement block, observation after the context, flags)
#   flags: "g:<names>" the block assigns these globals (a helper function needs `global`); "loop" needs an enclosing
#   script-level loop; "main" legal at main-loop level too (continue)
CTX_STMTS: Dict[str, Tuple[str, str, str, str]] = {
    "write": ("", "mon.write(a)\n", "", ""),
    "two_writes": ("", "mon.write(a)\nmon.write(b)\n", "", ""),
    "new_zero": ("", "t = 0\nt += a\nmon.write(t)\n", "", ""),
    "new_false": ("", "f = False\nf = f or a > 5\nmon.write(1 if f else 0)\n", "", ""),
    "new_empty_str": ("", 's = ""\ns = s + "x"\nmon.write(s)\n', "", ""),
    "new_float_zero": ("", "t = 0.0\nt = t + a / 4.0\nmon.write(t)\n", "", ""),
    "new_var": ("", "t = a + 1\nmon.write(t)\n", "", ""),
    "aug_global": ("acc = 0\n", "acc += 1\n", "mon.write(acc)\n", "g:acc"),
    "const_bump": ("k = 5\n", "k = k + 1\n", "sleep(k)\nmon.write(k)\n", "g:k"),
    "str_reassign": ('s = "abc"\n', 's = "abcdef"\n', "mon.write(s)\n", "g:s"),
    "sleep": ("", "sleep(a + 600)\n", "", ""),
    "led_level": ("led = Led(9)\n", "led.set_brightness(40)\n", "mon.write(led.get_brightness())\nled.toggle()\n", ""),
    "led_toggle": ("led = Led(13)\n", "led.toggle()\n", "mon.write(1 if led.get_state() else 0)\n", ""),
    "rgb_set": ("rgb = RGBLed(3, 5, 6)\n", "rgb.set_color(10, 20, 30)\n", "rgb.blink(1, 2, 3, 1, 5)\n", ""),
    "continue": ("", "mon.write(1)\ncontinue\n", "", "main"),
    "break": ("", "mon.write(1)\nbreak\n", "", "loop"),
    "append": ("xs = [1, 2]\n", "xs.append(a)\nmon.write(xs[2])\n", "mon.write(xs[0])\n", ""),
    "remove_dup": ("xs = [2, 5, 2, 8]\n", "xs.remove(2)\nxs.append(2)\n", "mon.write(xs[0])\nmon.write(xs[1])\nmon.write(xs[2])\n", ""),
    "self_append": ("xs = [4, 5]\n", "xs.append(xs[0])\nxs.remove(xs[0])\n", "mon.write(xs[0])\nmon.write(xs[1])\n", ""),
    "swap": ("x = 1\ny = 2\n", "x, y = y, x\n", "mon.write(x)\nmon.write(y)\n", "g:x,y"),
    "list_swap": ("p = [1, 2]\nq = [3, 4]\n", "p, q = q, p\n", "mon.write(p[0])\nmon.write(q[1])\n", "g:p,q"),
    "call_void": ("def report(v):\n    mon.write(v)\n    mon.write(v + 1)\n", "report(a)\n", "", ""),
    "call_value": ("def inc(v):\n    return v + 1\n", "mon.write(inc(a))\n", "", ""),
    "range_name": ("n = 1\n", "for r in range(n):\n    mon.write(r)\nn = n + 1\n", "mon.write(n)\n", "g:n"),
    "pass": ("", "pass\nmon.write(5)\n", "", ""),
    "str_vars": ("", 't = "it\'s #1"\nmon.write(t)\nu = \'say "hi" # no\'\nmon.write(u)\n', "", ""),
    "strings": ("", 'mon.write("tab\\there")\nmon.write("it\'s #1")\nmon.write(\'say "hi" # no\')\n', "", ""),
}


# device commands for the same product (C04/C05/C09 use them with DEV_HEADER)
CTX_DEV_STMTS: Dict[str, Tuple[str, str, str, str]] = {
    "led_level": CTX_STMTS["led_level"],
    "led_toggle": CTX_STMTS["led_toggle"],
    "led_fade": ("led = Led(9)\n", "led.set_brightness(100)\nled.fade_in(100, 2)\n", "mon.write(led.get_brightness())\n", ""),
    "rgb_set": CTX_STMTS["rgb_set"],
    "servo_write": ("sv = Servo(10)\n", "sv.write(45)\n", "mon.write(sv.read())\nsv.write(90)\n", ""),
    "motor_speed": ("m = DCMotor(4, 7, 11)\n", "m.set_speed(0.5)\n", "mon.write(m.get_speed())\nm.invert()\nm.stop()\n", ""),
}


# list manipulations for the same product (C09: memory safety / heap balance)
CTX_LIST_STMTS: Dict[str, Tuple[str, str, str, str]] = {
    "append": CTX_STMTS["append"],
    "remove_dup": CTX_STMTS["remove_dup"],
    "self_append": CTX_STMTS["self_append"],
    "self_append_last": ("xs = [4, 5]\n", "xs.append(xs[1])\nxs.remove(xs[0])\n", "mon.write(xs[0])\nmon.write(xs[1])\n", ""),
    "list_swap": CTX_STMTS["list_swap"],
    "list_rotate3": ("p = [1, 2]\nq = [3, 4]\nr = [5, 6]\n", "p, q, r = q, r, p\n", "mon.write(p[0])\nmon.write(q[1])\nmon.write(r[0])\n", "g:p,q,r"),
    "swap_then_append": ("p = [1, 2]\nq = [3, 4]\n", "p, q = q, p\np.append(a)\np.remove(p[0])\n", "mon.write(p[0])\nmon.write(q[1])\n", "g:p,q"),
    "append_from_other": ("xs = [1, 2]\nys = [7, 8]\n", "xs.append(ys[0])\nxs.remove(xs[0])\n", "mon.write(xs[1])\n", ""),
    "remove_then_index": ("xs = [2, 5, 2, 8]\n", "xs.remove(5)\nxs.append(5)\n", "mon.write(xs[2])\nmon.write(xs[3])\n", ""),
}


def _fill(template: str, block: str) -> str:
    out = template
    for k in range(4):
        out = out.replace("{S%d}" % k, _ind(block, 4 * k) if k else block)
    return out


def ctx_family(tier="quick", stmts=None, contexts=None, table=None, header=None) -> List[Tuple[str, str]]:
    """ids: ctx/<context>/<statement>."""
    out = []
    HEADER = header or globals()["HEADER"]
    reads_setup = 'a = analog_read("A0") - 512\nb = analog_read("A1") - 512\n'
    for sname, (pre, block, post, flags) in (table or CTX_STMTS).items():
        if stmts is not None and sname not in stmts:
            continue
        gl = flags[2:].split(",") if flags.startswith("g:") else []
        loop_ctx = dict(CTX_LOOP)
        if tier == "thorough":
            loop_ctx.update(CTX_LOOP_THOROUGH)
        for cname, tmpl in loop_ctx.items():
            if contexts is not None and cname not in contexts:
                continue
            if flags == "loop" and cname not in CTX_INNER_LOOP:
                continue
            body = _fill(tmpl, block)
            out.append((f"ctx/{cname}/{sname}", HEADER + pre + "while True:\n" + READ_AB + _ind(body) + _ind(post)))
        if contexts is not None and not any(c in contexts for c in ("fn", "fn_if", "fn_doc", "setup", "setup_else")):
            continue
        # helper-function contexts (not for continue/break at function level)
        gdecl = ("global " + ", ".join(gl) + "\n") if gl else ""
        if flags not in ("main", "loop"):
            for cname, fbody in (("fn", gdecl + block),
                                 ("fn_if", gdecl + "if a > 0:\n" + _ind(block) + "else:\n    mon.write(80)\n"),
                                 ("fn_doc", '"""Do the work."""  # a docstring with a trailing comment\n' + gdecl + block)):
                if contexts is not None and cname not in contexts:
                    continue
                src = HEADER + pre + "def work(a, b):\n" + _ind(fbody) + "while True:\n" + READ_AB + "    work(a, b)\n" + _ind(post)
                out.append((f"ctx/{cname}/{sname}", src))
        # prologue contexts
        if flags not in ("main", "loop"):
            for cname, sbody in (("setup", block), ("setup_else", "if a > 0:\n    mon.write(80)\nelse:\n" + _ind(block))):
                if contexts is not None and cname not in contexts:
                    continue
                src = HEADER + pre + reads_setup + sbody + post + "while True:\n    mon.write(0)\n" + _ind(post)
                out.append((f"ctx/{cname}/{sname}", src))
    return out
