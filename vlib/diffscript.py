"""Script-level translation validation: firmware (fwsym over the lowered IR of emit(parse(src)))
versus CPython (pysym over the real host modules), lock-step product of paths, solver decides
trace equivalence, counterexamples replayed on g++ binary + stock CPython.
"""
from __future__ import annotations

import json
import math
import os
import subprocess
import time
from typing import Dict, List, Optional

import z3

from . import fwsym, hostobs, lower, pysym, smt
from .common import Result
from .fwsym import BV, FP

F64 = z3.Float64()
RNE = z3.RNE()

# relative / absolute tolerance when a binary32 device value is compared with CPython's binary64
FLT_REL = 1e-4
FLT_ABS = 1e-4


# ------------------------------------------------------------------ value helpers
def f_int64(b):
    """firmware integer (BV object) -> z3 BV64 (sign-extended) or python int"""
    if isinstance(b, BV):
        if b.concrete:
            return b.signed()
        return z3.SignExt(64 - b.w, b.v) if b.w < 64 else b.v
    return b


def f_uint64(b):
    if isinstance(b, BV):
        if b.concrete:
            return b.v
        return z3.ZeroExt(64 - b.w, b.v) if b.w < 64 else b.v
    return b


def as_num(x):
    """-> ('i', python int | z3 BV64) or ('f', python float | z3 FP64) or None"""
    if isinstance(x, bool):
        return ("i", int(x))
    if isinstance(x, int):
        return ("i", x)
    if isinstance(x, float):
        return ("f", x)
    if isinstance(x, BV):
        return ("i", f_int64(x))
    if isinstance(x, FP):
        if x.concrete:
            return ("f", float(x.v))
        return ("f", x.v if x.k == 64 else z3.fpFPToFP(RNE, x.v, F64))
    if isinstance(x, pysym.SymInt):
        return ("i", x.z)
    if isinstance(x, pysym.SymBool):
        return ("i", z3.If(x.z, z3.BitVecVal(1, 64), z3.BitVecVal(0, 64)))
    if isinstance(x, pysym.SymFloat):
        return ("f", x.z)
    if z3.is_expr(x):
        if z3.is_bv(x):
            return ("i", z3.SignExt(64 - x.size(), x) if x.size() < 64 else x)
        if z3.is_fp(x):
            return ("f", x if x.ebits() == 11 else z3.fpFPToFP(RNE, x, F64))
        if z3.is_bool(x):
            return ("i", z3.If(x, z3.BitVecVal(1, 64), z3.BitVecVal(0, 64)))
    return None


def _zi(v):
    return z3.BitVecVal(v, 64) if isinstance(v, int) else v


def _zf(v):
    return z3.FPVal(v, F64) if isinstance(v, float) else v


def num_differs(a, b, *, float_tol=True):
    """z3 Bool (or python bool): numeric values differ.  int/int exact; anything with a float:
    |a-b| > FLT_ABS + FLT_REL*|b| (device floats are binary32)."""
    na, nb = as_num(a), as_num(b)
    if na is None or nb is None:
        return True
    if na[0] == "i" and nb[0] == "i":
        if isinstance(na[1], int) and isinstance(nb[1], int):
            return na[1] != nb[1]
        return _zi(na[1]) != _zi(nb[1])
    fa = na[1] if na[0] == "f" else (float(na[1]) if isinstance(na[1], int) else z3.fpSignedToFP(RNE, na[1], F64))
    fb = nb[1] if nb[0] == "f" else (float(nb[1]) if isinstance(nb[1], int) else z3.fpSignedToFP(RNE, nb[1], F64))
    if isinstance(fa, float) and isinstance(fb, float):
        if math.isnan(fa) or math.isnan(fb):
            return not (math.isnan(fa) and math.isnan(fb))
        if math.isinf(fa) or math.isinf(fb):
            return fa != fb
        return abs(fa - fb) > FLT_ABS + FLT_REL * abs(fb)
    fa, fb = _zf(fa), _zf(fb)
    diff = z3.fpAbs(z3.fpSub(RNE, fa, fb))
    tol = z3.fpAdd(RNE, z3.FPVal(FLT_ABS, F64), z3.fpMul(RNE, z3.FPVal(FLT_REL, F64), z3.fpAbs(fb)))
    both_nan = z3.And(z3.fpIsNaN(fa), z3.fpIsNaN(fb))
    return z3.And(z3.Not(both_nan), z3.Not(z3.fpLEQ(diff, tol)))


def delay_differs(f, h):
    """device delay(ms) is a whole number of ms: equal to the host duration up to < 1 ms."""
    nf, nh = as_num(f), as_num(h)
    if nf is None or nh is None:
        return True
    if nh[0] == "i":
        fz = f_uint64(f) if isinstance(f, BV) else nf[1]
        if isinstance(fz, int) and isinstance(nh[1], int):
            return fz != nh[1]
        return _zi(fz) != _zi(nh[1])
    fz = f_uint64(f) if isinstance(f, BV) else nf[1]
    ff = float(fz) if isinstance(fz, int) else z3.fpUnsignedToFP(RNE, fz, F64)
    hf = nh[1]
    if isinstance(ff, float) and isinstance(hf, float):
        return not (abs(ff - hf) < 1.0)
    return z3.Not(z3.fpLT(z3.fpAbs(z3.fpSub(RNE, _zf(ff), _zf(hf))), z3.FPVal(1.0, F64)))


# ------------------------------------------------------------------ normalisation
def normalise_fw(events, dev: hostobs.Devices, *, keep_config=False, user_pinmode_pins=None, host_pins=None):
    """Firmware raw events -> shared vocabulary.  Configuration of device-owned pins is dropped here
    (C05 checks configure-before-use on the raw trace)."""
    out = []
    devpins = dev.device_pins()
    button_pins = {hostobs.pin_number(b.pin) for b in dev.buttons}
    motor_pins = {}
    for m in dev.motor:
        for role, p in zip(("in1", "in2", "en"), m):
            motor_pins[p] = (m, role)
    mstate = {}
    servo_pin = {}
    just_attached = None
    in_setup = True
    lcds = {}        # objname -> dict(idx, cols, rows, cells{(r,c): piece}, dirty, off_screen)

    def flush_lcds():
        for name, L in lcds.items():
            if L["dirty"]:
                L["dirty"] = False
                rows = []
                for r in range(L["rows"]):
                    rows.append(tuple(L["cells"].get((r, c), ("c", 32)) for c in range(L["cols"])))
                out.append(("lcd_snapshot", L["idx"], tuple(rows), L["cols"], L["rows"]))
    for ev in events:
        if not ev[0].startswith("lcd_") and ev[0] not in ("millis", "micros", "pinMode"):
            flush_lcds()
        k = ev[0]
        if k == "marker":
            in_setup = ev[1] == "setup"
            out.append(ev)
        elif k == "pinMode":
            pin = ev[1].v
            if not keep_config and (pin in devpins or (user_pinmode_pins is not None and pin not in user_pinmode_pins)):
                continue
            out.append(("pinMode", pin, ev[2].v if ev[2].concrete else ev[2]))
        elif k == "digitalWrite":
            pin = ev[1].v
            val = ev[2]
            if pin in dev.led_pins or pin in dev.rgb_pins:
                lvl = (255 if val.v else 0) if val.concrete else z3.If(val.v != 0, z3.BitVecVal(255, 64), z3.BitVecVal(0, 64))
                out.append(("level", pin, lvl))
            elif pin in motor_pins:
                m, role = motor_pins[pin]
                mstate.setdefault(m, {})[role] = val
            else:
                if in_setup and host_pins is not None and pin not in host_pins and not keep_config:
                    continue   # hoisted configuration of a device the python run has not declared (yet)
                b = (1 if val.v else 0) if val.concrete else z3.If(val.v != 0, z3.BitVecVal(1, 64), z3.BitVecVal(0, 64))
                out.append(("dwrite", pin, b))
        elif k == "analogWrite":
            pin = ev[1].v
            if pin in dev.led_pins or pin in dev.rgb_pins:
                out.append(("level", pin, f_int64(ev[2])))
            elif pin in motor_pins:
                m, role = motor_pins[pin]
                st = mstate.setdefault(m, {})
                out.append(("motor", m, st.get("in1"), st.get("in2"), ev[2]))
            else:
                if in_setup and host_pins is not None and pin not in host_pins and not keep_config:
                    continue
                out.append(("awrite", pin, f_int64(ev[2])))
        elif k == "digitalRead":
            pin = ev[1].v
            if pin in button_pins:
                continue
            out.append(("dread", pin, ev[2]))
        elif k == "analogRead":
            out.append(("aread", ev[1].v, ev[2]))
        elif k == "delay":
            out.append(("delay", ev[1]))
        elif k == "ser":
            out.append(ev)
        elif k in ("serial_begin", "millis", "micros", "heap", "note", "flag"):
            if keep_config and k == "serial_begin":
                out.append(ev)
            continue
        elif k == "servo_attach":
            servo_pin[ev[1]] = ev[2].v if isinstance(ev[2], BV) and ev[2].concrete else ev[2]
            just_attached = ev[1]
            if keep_config:
                out.append(ev)
            continue
        elif k == "servo_us" and just_attached == ev[1] and not keep_config:
            just_attached = None      # parking the horn at the minimum pulse is part of attaching
            continue
        elif k == "servo_write":
            out.append(("servo_angle", servo_pin.get(ev[1], ev[1]), ev[2]))
        elif k == "servo_us":
            out.append(("servo_pulse", servo_pin.get(ev[1], ev[1]), ev[2]))
        elif k == "lcd_init":
            cols = ev[2].v if isinstance(ev[2], BV) else ev[2]
            rows = ev[3].v if isinstance(ev[3], BV) else ev[3]
            L = lcds.setdefault(ev[1], {"idx": len(lcds), "cells": {}, "off": [], "dirty": False})
            L.update(cols=cols, rows=rows, cells={}, dirty=False)
            out.append(("lcd_init", L["idx"], cols, rows))
        elif k == "lcd_clear":
            L = lcds.get(ev[1])
            if L is None:
                out.append(("lcd_error", "clear before init"))
            else:
                L["cells"] = {}
                L["dirty"] = True
        elif k == "lcd_cursor":
            continue
        elif k == "lcd_put":
            L = lcds.get(ev[1])
            if L is None:
                out.append(("lcd_error", "put before init"))
                continue
            r, c = ev[2], ev[3]
            if not (0 <= r < L["rows"] and 0 <= c < L["cols"]):
                out.append(("lcd_off_screen", L["idx"], r, c))
            else:
                pc_ = ev[4]
                if pc_[0] == "c":
                    ch = pc_[1]
                    pc_ = ("c", (ch.v if ch.concrete else ch.v) if isinstance(ch, BV) else ch)
                L["cells"][(r, c)] = pc_
                L["dirty"] = True
        elif k == "lcd_display":
            L = lcds.get(ev[1])
            out.append(("lcd_display", L["idx"] if L else -1, ev[2].v if isinstance(ev[2], BV) and ev[2].concrete else ev[2]))
        elif k == "lcd_backlight":
            L = lcds.get(ev[1])
            out.append(("lcd_backlight", L["idx"] if L else -1, ev[2].v if isinstance(ev[2], BV) and ev[2].concrete else ev[2]))
        elif k == "lcd_glyph":
            L = lcds.get(ev[1])
            slot = ev[2].v if isinstance(ev[2], BV) and ev[2].concrete else ev[2]
            rows8 = tuple((x.v if x.concrete else x) if isinstance(x, BV) else x for x in ev[3])
            out.append(("lcd_glyph", L["idx"] if L else -1, slot, rows8))
        else:
            out.append(ev)
    flush_lcds()
    return out


def host_pin_set(th, dev):
    pins = set(dev.device_pins())
    for e in th:
        if e[0] in ("dwrite", "awrite", "pinMode", "level", "dread", "aread") and isinstance(e[1], int):
            pins.add(e[1])
    return pins


def _host_cells(buf_rows):
    rows = []
    for line in buf_rows:
        cells = []
        for ch in line:
            o = ord(ch)
            cells.append(("c", 255 if o == 0x2588 else o))
        rows.append(tuple(cells))
    return tuple(rows)


def normalise_host(events, dev: hostobs.Devices):
    out = []
    for ev in events:
        k = ev[0]
        if k == "lcd_snapshot":
            snap = ("lcd_snapshot", ev[1], _host_cells(ev[2]), ev[3], ev[4])
            if out and out[-1][0] == "lcd_snapshot" and out[-1][1] == ev[1]:
                out[-1] = snap
            else:
                out.append(snap)
            continue
        if k in ("serial_begin", "time.sleep", "servo_attach", "pyheap"):
            continue
        if k == "dwrite":
            v = ev[2]
            if pysym.is_sym(v):
                b = z3.If(pysym.zbool(v), z3.BitVecVal(1, 64), z3.BitVecVal(0, 64))
            else:
                b = 1 if v else 0
            out.append(("dwrite", ev[1], b))
        else:
            out.append(ev)
    return out


def _same_term(a, b):
    if isinstance(a, int) and isinstance(b, int):
        return a == b
    if z3.is_expr(a) and z3.is_expr(b):
        return a.eq(b)
    return False


RESET_AT_MARKERS = [False]


def _motor_sig(ev):
    return tuple(z3.simplify(x.z()) if isinstance(x, (BV, FP)) else
                 (z3.simplify(pysym.zfp(x)) if pysym.is_sym(x) else x) for x in ev[2:])


def _is_initial_motor(sig):
    """the state every motor is in after setup: bridge off, duty 0 (firmware) / mode coast, speed 0 (host)"""
    if len(sig) == 3:
        return all(z3.is_bv_value(x) and x.as_long() == 0 for x in sig if z3.is_expr(x)) and all(z3.is_expr(x) for x in sig)
    if len(sig) == 2:
        return sig[0] == "coast"
    return False


def drop_redundant_levels(evs):
    """A write of the level a pin already has is not observable on the pin: drop it (both sides).  A motor starts
    in the safe-stop state (the firmware drives it there during setup; the host model starts in 'coast')."""
    last = {}
    lastm = {}
    out = []
    for ev in evs:
        if ev[0] == "marker" and RESET_AT_MARKERS[0] and ev[1] == "loop":
            # pass boundaries carry a havocked device state (inductive steps): forget pin history
            last, lastm = {}, {"__havoc__": True}
        if ev[0] == "motor":
            key = tuple(ev[1])
            sig = _motor_sig(ev)
            prev = lastm.get(key)
            if prev is None and "__havoc__" not in lastm and _is_initial_motor(sig):
                lastm[key] = sig
                continue
            if prev is not None and len(prev) == len(sig) and all(
                    (a.eq(b) if z3.is_expr(a) and z3.is_expr(b) else (not z3.is_expr(a) and not z3.is_expr(b) and a == b))
                    for a, b in zip(prev, sig)):
                continue
            lastm[key] = sig
        if ev[0] == "level":
            v = ev[2]
            if isinstance(v, pysym.SymInt):
                v = z3.simplify(v.z)
            elif z3.is_expr(v):
                v = z3.simplify(v)
            if ev[1] in last and _same_term(last[ev[1]], v):
                continue
            last[ev[1]] = v
        out.append(ev)
    return out


def drop_repeated_snapshots(evs):
    last = {}
    out = []
    for ev in evs:
        if ev[0] == "lcd_snapshot":
            if last.get(ev[1]) == ev[2]:
                continue
            last[ev[1]] = ev[2]
        out.append(ev)
    return out


def merge_serial(evs):
    """Merge runs of ('ser', piece) into one ('serial', [pieces]) with adjacent chars joined."""
    evs = drop_repeated_snapshots(drop_redundant_levels(evs))
    out = []
    cur = None
    for ev in evs:
        if ev[0] == "ser":
            if cur is None:
                cur = []
                out.append(("serial", cur))
            cur.append(ev[1])
        else:
            cur = None
            out.append(ev)
    return out


def _piece_norm(p):
    """-> ('c', int|z3) | ('n', value)"""
    if p[0] == "c":
        c = p[1]
        if isinstance(c, BV):
            c = c.v if c.concrete else c.v
        return ("c", c)
    return ("n", p[1])


_NUM_RE = __import__("re").compile(r"-?(?:\d+\.?\d*(?:[eE][-+]?\d+)?|inf|nan)")


def _cval(p):
    c = p[1]
    if isinstance(c, BV):
        return c.v if c.concrete else c.v
    return c


def _concrete_num(v):
    if isinstance(v, BV):
        return v.signed() if v.concrete else None
    if isinstance(v, FP):
        return v.v if v.concrete else None
    if isinstance(v, (int, float)) and not isinstance(v, bool):
        return v
    return None


def serial_differs(pf, ph):
    """Walk the two piece lists.  Rendered numbers are compared by value; a number that is concrete on one side
    may appear as digits (chars) on the other (CPython renders concrete values itself)."""
    conds = []
    i = j = 0
    while i < len(pf) and j < len(ph):
        a, b = pf[i], ph[j]
        if a[0] == "c" and b[0] == "c":
            x, y = _cval(a), _cval(b)
            if isinstance(x, int) and isinstance(y, int):
                if x != y:
                    return True, f"serial char {x} vs {y}"
            else:
                x = x if not isinstance(x, int) else z3.BitVecVal(x, 32)
                y = y if not isinstance(y, int) else z3.BitVecVal(y, 32)
                conds.append(x != y)
            i += 1
            j += 1
        elif a[0] != "c" and b[0] != "c":
            d = num_differs(a[1], b[1])
            if d is True:
                return True, "serial number"
            if d is not False:
                conds.append(d)
            i += 1
            j += 1
        elif a[0] != "c":
            # firmware number vs python digits
            text = ""
            k = j
            while k < len(ph) and ph[k][0] == "c" and isinstance(_cval(ph[k]), int):
                text += chr(_cval(ph[k]))
                k += 1
            m = _NUM_RE.match(text)
            if not m:
                return True, "serial: firmware prints a number where python prints text " + repr(text[:8])
            lit = m.group(0)
            hv = int(lit) if lit.lstrip("-").isdigit() else float(lit)
            d = num_differs(a[1], hv)
            if d is True:
                return True, "serial number vs literal"
            if d is not False:
                conds.append(d)
            i += 1
            j += len(lit)
        else:
            # firmware chars vs python rendered number
            fv = None
            text = ""
            k = i
            while k < len(pf) and pf[k][0] == "c" and isinstance(_cval(pf[k]), int):
                text += chr(_cval(pf[k]))
                k += 1
            m = _NUM_RE.match(text)
            if not m:
                return True, "serial: python prints a number where firmware prints text " + repr(text[:8])
            lit = m.group(0)
            fv = int(lit) if lit.lstrip("-").isdigit() else float(lit)
            d = num_differs(fv, b[1])
            if d is True:
                return True, "serial literal vs number"
            if d is not False:
                conds.append(d)
            i += len(lit)
            j += 1
    if i != len(pf) or j != len(ph):
        return True, "serial length"
    return conds, ""


def motor_differs(f, h):
    """f: ('motor', pins, in1, in2, duty BV) ; h: ('motor', pins, mode, applied speed)"""
    _, pf, in1, in2, duty = f
    _, ph, mode, applied = h
    if tuple(pf) != tuple(ph):
        return True
    if in1 is None or in2 is None:
        return True
    a = (1 if in1.v else 0) if in1.concrete else None
    b = (1 if in2.v else 0) if in2.concrete else None
    if a is None or b is None:
        return True  # direction pins are always written with constants by the emitter
    dz = f_int64(duty)
    if mode == "brake":
        ok = (a, b) == (1, 1)
        return (not ok) or (_zi(dz) != z3.BitVecVal(0, 64) if not isinstance(dz, int) else dz != 0)
    if mode == "coast":
        ok = (a, b) == (0, 0)
        return (not ok) or (_zi(dz) != z3.BitVecVal(0, 64) if not isinstance(dz, int) else dz != 0)
    # drive: direction by sign of applied, duty within one PWM count of 255*|applied|
    ap = as_num(applied)
    if ap is None:
        return True
    af = ap[1] if ap[0] == "f" else (float(ap[1]) if isinstance(ap[1], int) else z3.fpSignedToFP(RNE, ap[1], F64))
    af = _zf(af)
    want = z3.fpMul(RNE, z3.fpAbs(af), z3.FPVal(255.0, F64))
    df = z3.fpSignedToFP(RNE, _zi(dz), F64)
    near = z3.fpLEQ(z3.fpAbs(z3.fpSub(RNE, df, want)), z3.FPVal(1.0, F64))
    zero = z3.fpIsZero(af)
    pos = z3.fpGT(af, z3.FPVal(0.0, F64))
    # the device coasts when the duty rounds to 0
    dir_ok = z3.If(_zi(dz) == z3.BitVecVal(0, 64), z3.BoolVal((a, b) == (0, 0)),
                   z3.If(pos, z3.BoolVal((a, b) == (1, 0)), z3.BoolVal((a, b) == (0, 1))))
    return z3.Not(z3.And(near, dir_ok, z3.Implies(zero, _zi(dz) == z3.BitVecVal(0, 64))))


def servo_differs(kind, f, h):
    """f: (kind, pin, int command) ; h: (kind, pin, angle, pulse).  The device API takes whole degrees /
    microseconds: the command must be the host value rounded (|diff| <= 0.5 + float tolerance)."""
    if f[1] != h[1]:
        return True
    hv = h[2] if kind == "servo_angle" else h[3]
    nh = as_num(hv)
    if nh is None:
        return True
    hf = nh[1] if nh[0] == "f" else (float(nh[1]) if isinstance(nh[1], int) else z3.fpSignedToFP(RNE, nh[1], F64))
    fz = f_int64(f[2])
    ff = float(fz) if isinstance(fz, int) else z3.fpSignedToFP(RNE, fz, F64)
    if isinstance(ff, float) and isinstance(hf, float):
        return abs(ff - hf) > 0.5 + FLT_ABS + FLT_REL * abs(hf)
    d = z3.fpAbs(z3.fpSub(RNE, _zf(ff), _zf(hf)))
    tol = z3.fpAdd(RNE, z3.FPVal(0.5 + FLT_ABS, F64), z3.fpMul(RNE, z3.FPVal(FLT_REL, F64), z3.fpAbs(_zf(hf))))
    return z3.Not(z3.fpLEQ(d, tol))


def _delay_nonzero(ev):
    v = ev[1]
    n = as_num(v)
    if n is None:
        return True
    if n[0] == "i":
        if isinstance(n[1], int):
            return n[1] != 0
        return n[1] != z3.BitVecVal(0, 64)
    if isinstance(n[1], float):
        return n[1] != 0.0
    return z3.Not(z3.fpIsZero(n[1]))


def traces_differ(tf, th):
    """-> (definite: bool, conds: list[z3 Bool], where: str).  A zero-length delay present on one side only
    is not a difference (it is skipped under the condition that it is zero)."""
    tf, th = merge_serial(tf), merge_serial(th)
    conds = []
    i = j = 0
    while i < len(tf) and j < len(th):
        a, b = tf[i], th[j]
        if a[0] != b[0]:
            if a[0] == "delay":
                nz = _delay_nonzero(a)
                if nz is True:
                    return True, [], f"event {i}: firmware {a[0]} vs python {b[0]}"
                if nz is not False:
                    conds.append(nz)
                i += 1
                continue
            if b[0] == "delay":
                nz = _delay_nonzero(b)
                if nz is True:
                    return True, [], f"event {i}: firmware {a[0]} vs python {b[0]}"
                if nz is not False:
                    conds.append(nz)
                j += 1
                continue
            return True, [], f"event {i}: firmware {a[0]} vs python {b[0]}"
        k = a[0]
        if k == "marker":
            if a[1] != b[1]:
                return True, [], f"event {i}: marker"
        elif k == "serial":
            d, why = serial_differs(a[1], b[1])
            if d is True:
                return True, [], f"event {i}: {why}"
            conds.extend(d)
        elif k == "delay":
            d = delay_differs(a[1], b[1])
            if d is True:
                return True, [], f"event {i}: delay"
            if d is not False:
                conds.append(d)
        elif k in ("level", "awrite", "dwrite", "pinMode"):
            if a[1] != b[1]:
                return True, [], f"event {i}: {k} pin {a[1]} vs {b[1]}"
            d = num_differs(a[2], b[2])
            if d is True:
                return True, [], f"event {i}: {k} value"
            if d is not False:
                conds.append(d)
        elif k in ("aread", "dread"):
            if a[1] != b[1]:
                return True, [], f"event {i}: {k} pin"
        elif k == "motor":
            d = motor_differs(a, b)
            if d is True:
                return True, [], f"event {i}: motor"
            if d is not False:
                conds.append(d)
        elif k in ("servo_angle", "servo_pulse"):
            d = servo_differs(k, a, b)
            if d is True:
                return True, [], f"event {i}: {k}"
            if d is not False:
                conds.append(d)
        else:
            if len(a) != len(b):
                return True, [], f"event {i}: {k} arity"
            for x, y in zip(a[1:], b[1:]):
                if as_num(x) is not None and as_num(y) is not None:
                    d = num_differs(x, y)
                    if d is True:
                        return True, [], f"event {i}: {k} value"
                    if d is not False:
                        conds.append(d)
                elif x != y:
                    return True, [], f"event {i}: {k} payload"
        i += 1
        j += 1
    # leftovers: only zero-length delays may remain
    for rest, side in ((tf[i:], "firmware"), (th[j:], "python")):
        for ev in rest:
            if ev[0] == "delay":
                nz = _delay_nonzero(ev)
                if nz is True:
                    return True, [], f"trace length: extra {side} delay"
                if nz is not False:
                    conds.append(nz)
            else:
                return True, [], f"trace length firmware {len(tf)} vs python {len(th)} (first extra {side}: {ev[0]})"
    return False, conds, ""


# ------------------------------------------------------------------ concrete replay
_RT_OBJ = None


def runtime_object():
    """Compile mock/runtime.cpp once per process."""
    global _RT_OBJ
    if _RT_OBJ is None:
        d = lower.scratch_dir()
        obj = os.path.join(d, f"runtime-{os.getpid()}.o")
        r = subprocess.run(["g++", "-std=gnu++17", "-O0", "-w", "-I" + lower.MOCK, "-c",
                            os.path.join(lower.VERIF, "mock", "runtime.cpp"), "-o", obj], capture_output=True, text=True)
        if r.returncode != 0:
            raise RuntimeError("runtime.cpp failed to compile: " + r.stderr[:500])
        _RT_OBJ = obj
    return _RT_OBJ


def run_firmware_concrete(cpp: str, passes: int, inputs: Dict[str, float], extra_flags=()):
    """Compile the emitted C++ with g++ against the concrete mock core and run it. -> list of raw events"""
    d = lower.scratch_dir()
    base = os.path.join(d, f"replay-{os.getpid()}-{time.time_ns()}")
    with open(base + ".cpp", "w") as f:
        f.write(cpp)
    try:
        r = subprocess.run(["g++", "-std=gnu++17", "-O0", "-w", "-ffp-contract=off", "-I" + lower.MOCK] + list(extra_flags) +
                           [base + ".cpp", runtime_object(), "-o", base + ".bin"], capture_output=True, text=True)
        if r.returncode != 0:
            return None, "g++: " + r.stderr[:800]
        with open(base + ".in", "w") as f:
            for name, val in inputs.items():
                parts = name.split("_")
                if parts[0] != "in" or len(parts) < 4:
                    continue
                kind, key, k = parts[1], parts[2], parts[3]
                try:
                    # exact integers (64-bit clock values do not survive a round trip through a double)
                    if isinstance(val, int) and not isinstance(val, bool):
                        # 64-bit model values are reported signed: hand the machine word over as unsigned
                        text = str(val if val >= 0 or kind not in ("millis", "micros", "millisgap") else val + (1 << 64))
                    else:
                        text = repr(float(val))
                    f.write(f"{kind} {int(key)} {int(k)} {text}\n")
                except ValueError:
                    continue
        env = dict(os.environ, VERIF_INPUTS=base + ".in")
        env["ASAN_OPTIONS"] = "detect_leaks=0:abort_on_error=0:exitcode=77"
        env["UBSAN_OPTIONS"] = "halt_on_error=1:exitcode=77:print_stacktrace=0"
        r = subprocess.run([base + ".bin", str(passes)], capture_output=True, text=True, env=env, timeout=60)
        if r.returncode != 0:
            if "Sanitizer" in r.stderr or "runtime error" in r.stderr:
                first = [ln for ln in r.stderr.splitlines() if "ERROR" in ln or "runtime error" in ln][:1]
                evs = parse_runtime_output(r.stdout)
                evs.append(("flag", "sanitizer", (first[0] if first else r.stderr[:200])[:200]))
                return evs, ""
            return None, f"binary exit {r.returncode}: {r.stdout[-300:]} {r.stderr[-300:]}"
        return parse_runtime_output(r.stdout), ""
    finally:
        for ext in (".cpp", ".bin", ".in"):
            try:
                os.unlink(base + ext)
            except OSError:
                pass


def parse_runtime_output(text: str):
    evs = []
    for line in text.splitlines():
        p = line.split()
        if not p:
            continue
        k = p[0]
        if k == "marker":
            evs.append(("marker", p[1]))
        elif k == "ser":
            if p[1] == "c":
                evs.append(("ser", ("c", BV(32, int(p[2])))))
            elif p[1] == "int":
                evs.append(("ser", ("int", BV(64, int(p[2]) & ((1 << 64) - 1)))))
            else:
                evs.append(("ser", ("flt", FP(64, float(p[2])), BV(32, int(p[3])))))
        elif k in ("pinMode", "digitalWrite"):
            evs.append((k, BV(8, int(p[1])), BV(8, int(p[2]))))
        elif k == "analogWrite":
            evs.append((k, BV(8, int(p[1])), BV(32, int(p[2]) & 0xFFFFFFFF)))
        elif k in ("digitalRead", "analogRead"):
            evs.append((k, BV(8, int(p[1])), BV(32, int(p[2]) & 0xFFFFFFFF)))
        elif k == "delay":
            evs.append(("delay", BV(64, int(p[1]))))
        elif k == "delayMicroseconds":
            evs.append((k, BV(32, int(p[1]))))
        elif k in ("millis", "micros"):
            evs.append((k, BV(64, int(p[1]))))
        elif k == "serial_begin":
            evs.append((k, BV(64, int(p[1]))))
        elif k == "heap":
            evs.append(("heap", int(p[1])))
        elif k == "note":
            evs.append(("note", p[1], p[2]))
        elif k in ("servo_write", "servo_us"):
            evs.append((k, p[1], BV(32, int(p[2]) & 0xFFFFFFFF)))
        elif k == "tone":
            evs.append((k, BV(8, int(p[1])), BV(32, int(p[2])), BV(64, int(p[3]))))
        elif k == "noTone":
            evs.append((k, BV(8, int(p[1]))))
        elif k == "pulseIn":
            evs.append((k, BV(8, int(p[1])), BV(8, int(p[2])), BV(64, int(p[3]))))
        elif k == "lcd_init":
            evs.append((k, p[1], BV(32, int(p[2])), BV(32, int(p[3])), BV(32, int(p[4]))))
        elif k == "lcd_clear":
            evs.append((k, p[1]))
        elif k == "lcd_cursor":
            evs.append((k, p[1], BV(32, int(p[2]) & 0xFFFFFFFF), BV(32, int(p[3]) & 0xFFFFFFFF)))
        elif k == "lcd_put":
            if p[4] == "c":
                piece = ("c", BV(32, int(p[5]) & 0xFFFFFFFF))
            elif p[4] == "int":
                piece = ("int", BV(64, int(p[5]) & ((1 << 64) - 1)))
            else:
                piece = ("flt", FP(64, float(p[5])), BV(32, 2))
            evs.append((k, p[1], int(p[2]), int(p[3]), piece))
        elif k in ("lcd_display", "lcd_backlight"):
            evs.append((k, p[1], BV(32, int(p[2]))))
        elif k == "lcd_glyph":
            evs.append((k, p[1], BV(32, int(p[2])), tuple(BV(8, int(x)) for x in p[3:11])))
        else:
            evs.append(tuple([k] + p[1:]))
    return evs


def run_host_concrete(src: str, passes: int, inputs: Dict[str, float], prestate=None):
    """Run the script on stock CPython (no proxies) with the inputs of the model."""
    ce = pysym.ConcreteEngine({k: (int(v) if not isinstance(v, float) or float(v).is_integer() else v)
                               for k, v in inputs.items()})
    box = {}

    def fn():
        box["hw"] = hostobs.run_script(src, passes, patched=False, setup_done=prestate.host if prestate else None)
    out = ce.run(fn)
    return out, box.get("hw")


# ------------------------------------------------------------------ the differential obligation
def _sample_heap(ex, st):
    st.events.append(("heap", st.user.get("heap_blocks", 0), st.heap_live))


class ScriptDiff:
    def __init__(self, oid, src, passes=2, *, max_block_visits=40, max_paths=600, timeout_ms=20000,
                 budget_s=240, check_ub=False, claim_timeout_ms=90000, prestate=None, fw_only_check=None,
                 compare=True, replay_flags=()):
        self.oid, self.src, self.passes = oid, src, passes
        self.max_block_visits, self.max_paths = max_block_visits, max_paths
        self.timeout_ms, self.budget_s, self.check_ub = timeout_ms, budget_s, check_ub
        self.claim_timeout_ms = claim_timeout_ms
        self.prestate = prestate          # object with host(g, hw) and fw(ex, st): havoc state after setup
        self.fw_only_check = fw_only_check  # monitor(raw firmware events, devices, host events) -> [problem strings]
        self.compare = compare
        self.replay_flags = replay_flags

    def run(self) -> Result:
        t0 = time.time()
        res = Result(self.oid, "holds")
        res.sample = {"obligation": self.oid, "script": self.src, "passes": self.passes}
        # ---- transpile (reject is allowed)
        try:
            cpp = lower.transpile(self.src)
        except (ValueError, SyntaxError) as e:
            res.detail = f"rejected by the transpiler: {type(e).__name__}: {e}"[:300]
            res.extra["rejected"] = True
            res.nontrivial = False
            return res
        except Exception as e:
            res.verdict = "violation"
            res.detail = f"transpiler crashed with {type(e).__name__}: {e}"[:300]
            res.witness = {"class": "internal-error", "script": self.src}
            return res
        res.extra["cpp_lines"] = cpp.count("\n")
        try:
            mod = lower.lower_cpp(cpp, tag="d")
        except lower.CompileError as e:
            res.verdict = "inconclusive"
            res.detail = "emitted C++ does not compile (reported under C06): " + e.output[:200].replace("\n", " ")
            res.extra["compile_error"] = e.output[:1000]
            return res
        # ---- host paths
        heng = pysym.Engine(max_paths=self.max_paths, max_decisions=300, timeout_ms=self.timeout_ms)
        heng.deadline = t0 + self.budget_s
        hpaths = []
        box = {}

        def hfn():
            box["hw"] = hostobs.run_script(self.src, self.passes,
                                           setup_done=self.prestate.host if self.prestate else None)
            return box["hw"].devices

        def on_h(out):
            hpaths.append((out, box.get("hw")))
        heng.explore(hfn, on_h)
        res.queries += heng.stats["queries"]
        res.solver_s += heng.stats["solver_s"]
        inconc = []
        cex = None
        npairs = 0
        monitor_hit = []
        for out, hw in hpaths:
            if out.status == "raised":
                continue  # Python raises on these inputs: the property is about well-defined runs
            if out.status != "ok":
                inconc.append("python side: " + out.status)
                continue
            dev = out.result
            th = normalise_host(out.events, dev)
            upins = {e[1] for e in th if e[0] == "pinMode"}
            hpins = host_pin_set(th, dev)
            RESET_AT_MARKERS[0] = self.prestate is not None
            # ---- firmware paths compatible with this host path
            ex = fwsym.Executor(mod, max_block_visits=self.max_block_visits, max_paths=self.max_paths,
                                solver_timeout_ms=self.timeout_ms, check_ub=self.check_ub)
            ex.force_fresh = bool(out.fp_used)
            st = ex.init_state()
            st.pc = list(out.pc)
            entries = [(c, []) for c in mod.ctors] + [("#setup", []), ("_Z5setupv", [])]
            if self.prestate:
                entries.append((self.prestate.fw, []))
            entries.append((_sample_heap, []))
            for _ in range(self.passes):
                entries += [("#loop", []), ("_Z4loopv", []), (_sample_heap, [])]
            fpaths = []

            def on_f(pr):
                nonlocal cex
                fpaths.append(pr.status)
                if cex is not None:
                    return
                if pr.status != "ok":
                    if pr.status.startswith("ended:infeasible") or pr.status == "ended:assume-false":
                        return
                    if not (pr.flags and self.fw_only_check is not None and pr.status.startswith("ended:")
                            and not pr.status.startswith("ended:truncated")):
                        inconc.append("firmware side: " + pr.status)
                        return
                    # the path stopped at a memory/UB monitor hit: let the monitor report it
                if any(n[0] == "imprecise" for n in pr.notes):
                    inconc.append("firmware side: string op on rendered number")
                    return
                if self.fw_only_check is not None:
                    evs_m = list(pr.events) + [("flag",) + tuple(f) for f in pr.flags]
                    problems = self.fw_only_check(evs_m, dev, out.events)
                    if problems:
                        r, m = ex.model_for()
                        if r == "sat":
                            fev, err = run_firmware_concrete(cpp + (self.prestate.cpp(m) if self.prestate else ""),
                                                             self.passes, dict(m), extra_flags=self.replay_flags)
                            hev = None
                            if fev is not None:
                                hout, _hw = run_host_concrete(self.src, self.passes, dict(m), self.prestate)
                                hev = hout.events if hout.status == "ok" else None
                            if fev is not None and hev is not None and self.fw_only_check(fev, dev, hev):
                                cex = (m, "monitor: " + problems[0], pr.state.inputs, out.inputs)
                                monitor_hit.append(self.fw_only_check(fev, dev, hev)[0])
                                return
                            inconc.append("monitor violation did not replay: " + problems[0])
                        elif r == "unknown":
                            inconc.append("unknown: path feasibility (monitor)")
                        return
                if self.compare is False:
                    return
                tf = normalise_fw(pr.events, dev, user_pinmode_pins=upins, host_pins=hpins)
                definite, conds, where = traces_differ(tf, th)
                if definite:
                    # structural mismatch: any model of the path is a candidate, but value-dependent
                    # normalisation (redundant writes, zero delays) may make a particular model agree:
                    # try a few distinct models, keep the first that replays.
                    block = []
                    for _try in range(6):
                        r, m = ex.model_for(*block)
                        if r == "unknown":
                            inconc.append("unknown: path feasibility at " + where)
                            break
                        if r != "sat":
                            if _try > 0:
                                inconc.append("structural mismatch whose models do not replay: " + where)
                            break
                        probe = self._replay(Result(self.oid, "holds"), cpp, dict(m), where)
                        if probe.verdict == "violation":
                            cex = (m, where, pr.state.inputs, out.inputs)
                            break
                        if probe.verdict == "harness-error" and "did not replay" not in probe.detail:
                            inconc.append("replay problem: " + probe.detail[:120])
                            break
                        diff_in = [v != smt.to_z3_value(v, m[n]) for n, v in pr.state.inputs if n in m]
                        if not diff_in:
                            break
                        block.append(z3.Or(diff_in))
                    return
                conds = [c for c in conds if not (c is False)]
                if not conds:
                    return
                # one query per differing-candidate event: smaller FP formulas than one big disjunction
                seen_c = set()
                for c in conds:
                    c = c if z3.is_expr(c) else z3.BoolVal(bool(c))
                    c = z3.simplify(c)
                    if z3.is_false(c) or c.get_id() in seen_c:
                        continue
                    seen_c.add(c.get_id())
                    r, m = ex.model_for(c, timeout_ms=self.claim_timeout_ms)
                    if r == "sat":
                        cex = (m, "value mismatch", pr.state.inputs, out.inputs)
                        return
                    if r == "unknown":
                        inconc.append("unknown: trace equality query")
            ex.explore(st, entries, on_f)
            npairs += len(fpaths)
            res.queries += ex.stats["queries"]
            res.solver_s += ex.stats["solver_s"]
            res.paths += len(fpaths)
            if cex is not None:
                break
            if time.time() - t0 > self.budget_s:
                inconc.append("time budget exhausted")
                break
        res.extra["host_paths"] = len(hpaths)
        res.extra["pairs"] = npairs
        if cex is not None:
            m, where, finputs, hinputs = cex
            assign = dict(m or {})
            if monitor_hit:
                res.verdict = "violation"
                res.detail = f"firmware trace violates a temporal monitor ({monitor_hit[0]}) for inputs {assign}"
                res.witness = {"script": self.src, "passes": self.passes, "inputs": assign, "where": monitor_hit[0],
                               "class": classify(monitor_hit[0])}
                return res
            # inputs only one side created default to 0
            return self._replay(res, cpp, assign, where)
        if not hpaths or all(o.status == "raised" for o, _ in hpaths):
            res.verdict = "inconclusive"
            res.detail = "vacuous: no non-raising python path"
            return res
        if npairs == 0:
            res.verdict = "inconclusive"
            res.detail = "vacuous: no firmware path explored; " + "; ".join(inconc[:3])
            return res
        if inconc:
            res.verdict = "inconclusive"
            res.detail = "; ".join(sorted(set(inconc))[:4])
        return res

    def _replay(self, res: Result, cpp, assign, where):
        if self.prestate:
            cpp = cpp + self.prestate.cpp(assign)
        fev, err = run_firmware_concrete(cpp, self.passes, assign)
        if fev is None:
            res.verdict = "harness-error"
            res.detail = "replay: " + err
            return res
        hout, hw = run_host_concrete(self.src, self.passes, assign, self.prestate)
        if hout.status == "raised":
            # python raises on these inputs: outside the property; the symbolic side should have excluded it
            res.verdict = "harness-error"
            res.detail = f"replay: python raised {type(hout.exc).__name__}: {hout.exc} on inputs {assign}"
            return res
        if hout.status != "ok" or hw is None:
            res.verdict = "harness-error"
            res.detail = f"replay: python status {hout.status}"
            return res
        dev = hw.devices
        th = normalise_host(hout.events, dev)
        RESET_AT_MARKERS[0] = self.prestate is not None
        tf = normalise_fw(fev, dev, user_pinmode_pins={e[1] for e in th if e[0] == "pinMode"},
                          host_pins=host_pin_set(th, dev))
        definite, conds, where2 = traces_differ(tf, th)
        differs = definite or any((c is True) or (z3.is_expr(c) and z3.is_true(z3.simplify(c))) for c in conds)
        if differs:
            res.verdict = "violation"
            res.detail = f"firmware and CPython traces differ ({where2 or where}) for inputs {assign}"
            res.witness = {"script": self.src, "passes": self.passes, "inputs": assign, "where": where2 or where,
                           "firmware_trace": _render(merge_serial(tf)), "python_trace": _render(merge_serial(th)),
                           "class": classify(where2 or where)}
        else:
            res.verdict = "harness-error"
            res.detail = f"counterexample did not replay (symbolic side: {where}) inputs {assign}"
            res.extra["nonreplaying"] = 1
        return res


def classify(where: str) -> str:
    """Witness class used to match known findings.  Deliberately coarse and independent of which model the
    solver happened to return: the channel on which the difference shows."""
    import re
    w = re.sub(r"event \d+: ", "", where)
    if w.startswith("monitor"):
        return re.sub(r"-?\d+", "#", w)[:80]
    if w.startswith("serial"):
        return "serial"
    if w.startswith("trace length"):
        return "trace-length"
    m = re.match(r"firmware (\w+) vs python (\w+)", w)
    if m:
        kinds = sorted([m.group(1), m.group(2)])
        if "serial" in kinds or "marker" in kinds:
            return "serial" if "serial" in kinds else "structure"
        return "structure"
    return w.split(" ")[0]


def _render(tr):
    out = []
    for ev in tr[:80]:
        if ev[0] == "serial":
            s = ""
            for p in ev[1]:
                if p[0] == "c":
                    c = p[1]
                    c = c.v if isinstance(c, BV) else c
                    s += chr(c) if isinstance(c, int) and 32 <= c < 127 else ("\\n" if c == 10 else f"<{c}>")
                else:
                    v = p[1]
                    v = (v.signed() if isinstance(v, BV) else v.v) if isinstance(v, (BV, FP)) else v
                    s += "{" + str(v) + "}"
            out.append("serial:" + s)
        else:
            out.append(" ".join(str(x.signed() if isinstance(x, BV) and x.concrete else (x.v if isinstance(x, FP) else x)) for x in ev))
    return out
