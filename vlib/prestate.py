"""Arbitrary (invariant-satisfying) device pre-states for inductive-step obligations: the firmware's shadow
globals and the host object's fields are set from the same symbolic variables after setup()."""
from __future__ import annotations

import z3

from . import pysym
from .fwsym import BV, FP, Ptr, F32
from .irparse import I8, I32, FLOAT

RNE = z3.RNE()


class PreState:
    """Combine several device pre-states."""

    def __init__(self, *parts):
        self.parts = parts

    def host(self, g, hw):
        for p in self.parts:
            p.host(g, hw)

    def fw(self, ex, st):
        for p in self.parts:
            p.fw(ex, st)

    def cpp(self, assign) -> str:
        body = "".join(p.cpp(assign) for p in self.parts)
        return '\nextern "C" void __verif_prestate() {\n' + body + "}\n"


def _store_global(ex, st, name, ty, val):
    oid = ex.global_objs.get(name)
    if oid is None:
        raise KeyError(f"firmware has no global {name}")
    ex.store(st, Ptr(oid, 0), ty, val)


def _reg(st, name, var):
    if all(n != name for n, _ in st.inputs):
        st.inputs.append((name, var))


class LedPre:
    def __init__(self, var="led"):
        self.var = var
        self.b = z3.BitVec(f"pre_{var}_b", 8)

    def host(self, g, hw):
        e = pysym.eng()
        led = g[self.var]
        if isinstance(e, pysym.ConcreteEngine):
            b = int(e.assignment.get(str(self.b), 0))
            led.brightness, led.state = b, b > 0
            return
        e.inputs.append((str(self.b), self.b))
        led.brightness = pysym.SymInt(z3.ZeroExt(56, self.b))
        led.state = pysym.SymBool(self.b != 0)

    def fw(self, ex, st):
        _reg(st, str(self.b), self.b)
        _store_global(ex, st, f"__brightness_{self.var}", I32, BV(32, z3.ZeroExt(24, self.b)))
        _store_global(ex, st, f"__state_{self.var}", I8, BV(8, z3.If(self.b != 0, z3.BitVecVal(1, 8), z3.BitVecVal(0, 8))))

    def cpp(self, assign):
        b = int(assign.get(str(self.b), 0))
        return f"  __brightness_{self.var} = {b}; __state_{self.var} = {'true' if b else 'false'};\n"


class RGBPre:
    def __init__(self, var="rgb"):
        self.var = var
        self.c = [z3.BitVec(f"pre_{var}_{n}", 8) for n in ("r", "g", "b")]

    def host(self, g, hw):
        e = pysym.eng()
        rgb = g[self.var]
        if isinstance(e, pysym.ConcreteEngine):
            col = tuple(int(e.assignment.get(str(c), 0)) for c in self.c)
            rgb._color, rgb._state = col, any(x > 0 for x in col)
            return
        for c in self.c:
            e.inputs.append((str(c), c))
        rgb._color = tuple(pysym.SymInt(z3.ZeroExt(56, c)) for c in self.c)
        rgb._state = pysym.SymBool(z3.Or([c != 0 for c in self.c]))

    def fw(self, ex, st):
        for c, n in zip(self.c, ("red", "green", "blue")):
            _reg(st, str(c), c)
            _store_global(ex, st, f"__rgb_{n}_{self.var}", I32, BV(32, z3.ZeroExt(24, c)))
        _store_global(ex, st, f"__rgb_state_{self.var}", I8,
                      BV(8, z3.If(z3.Or([c != 0 for c in self.c]), z3.BitVecVal(1, 8), z3.BitVecVal(0, 8))))

    def cpp(self, assign):
        v = [int(assign.get(str(c), 0)) for c in self.c]
        return (f"  __rgb_red_{self.var} = {v[0]}; __rgb_green_{self.var} = {v[1]}; __rgb_blue_{self.var} = {v[2]}; "
                f"__rgb_state_{self.var} = {'true' if any(v) else 'false'};\n")


class MotorPre:
    """speed = k/64 for a symbolic k in -64..64 (exact in binary32 and binary64), inversion symbolic,
    idle mode symbolic (coast/brake)."""

    def __init__(self, var="motor"):
        self.var = var
        self.k = z3.BitVec(f"pre_{var}_k", 8)
        self.inv = z3.BitVec(f"pre_{var}_inv", 1)
        self.brk = z3.BitVec(f"pre_{var}_brake", 1)

    def _consts(self):
        return z3.And(self.k >= z3.BitVecVal(-64, 8), self.k <= z3.BitVecVal(64, 8))

    def host(self, g, hw):
        e = pysym.eng()
        m = g[self.var]
        if isinstance(e, pysym.ConcreteEngine):
            k = int(e.assignment.get(str(self.k), 0))
            k = k - 256 if k > 127 else k
            inv = bool(e.assignment.get(str(self.inv), 0))
            brk = bool(e.assignment.get(str(self.brk), 0))
            sp = k / 64.0
            m._speed, m._inverted = sp, inv
            m._applied_speed = -sp if inv else sp
            m._mode = "drive" if sp != 0.0 else ("brake" if brk else "coast")
            return
        for v in (self.k, self.inv, self.brk):
            e.inputs.append((str(v), v))
        e.assume(self._consts())
        k = e.concretize(self.k, limit=200) if False else None
        # fork on sign class only; the magnitude stays symbolic
        sp = pysym.SymFloat(z3.fpMul(RNE, z3.fpSignedToFP(RNE, self.k, pysym.F64), z3.FPVal(1.0 / 64.0, pysym.F64)))
        inv = e.decide(self.inv == 1)
        m._speed, m._inverted = sp, inv
        m._applied_speed = -sp if inv else sp
        if e.decide(self.k != 0):
            m._mode = "drive"
        else:
            m._mode = "brake" if e.decide(self.brk == 1) else "coast"

    def fw(self, ex, st):
        for v in (self.k, self.inv, self.brk):
            _reg(st, str(v), v)
        sp32 = z3.fpMul(RNE, z3.fpSignedToFP(RNE, self.k, F32), z3.FPVal(1.0 / 64.0, F32))
        from .fwsym import fp_from_z3
        _store_global(ex, st, f"__dc_speed_{self.var}", FLOAT, fp_from_z3(sp32, 32))
        _store_global(ex, st, f"__dc_inverted_{self.var}", I8, BV(8, z3.ZeroExt(7, self.inv)))
        # mode String: written as cells (len, ntok, buf...)
        oid = ex.global_objs[f"__dc_mode_{self.var}"]
        # under the path condition the mode text is decided by k != 0 / brake: concretise by forking
        drive = ex.concretize(st, BV(1, z3.If(self.k != 0, z3.BitVecVal(1, 1), z3.BitVecVal(0, 1))))
        if drive:
            text = "drive"
        else:
            text = "brake" if ex.concretize(st, BV(1, self.brk)) else "coast"
        ex.store(st, Ptr(oid, 0), I32, BV(32, len(text)))
        ex.store(st, Ptr(oid, 4), I32, BV(32, 0))
        for i, ch in enumerate(text):
            ex.store(st, Ptr(oid, 8 + 4 * i), I32, BV(32, ord(ch)))

    def cpp(self, assign):
        k = int(assign.get(str(self.k), 0))
        k = k - 256 if k > 127 else k
        inv = bool(assign.get(str(self.inv), 0))
        brk = bool(assign.get(str(self.brk), 0))
        mode = "drive" if k != 0 else ("brake" if brk else "coast")
        return (f"  __dc_speed_{self.var} = {k}.0f / 64.0f; __dc_inverted_{self.var} = {'true' if inv else 'false'}; "
                f"__dc_mode_{self.var} = \"{mode}\";\n")
