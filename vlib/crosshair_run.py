"""Run CrossHair on a harness module and classify each contract: confirmed / refuted(counterexample) / inconclusive."""
from __future__ import annotations

import os
import re
import subprocess
import sys
import time

from .lower import VERIF, scratch_dir


def run_crosshair(module_file: str, substitutions=None, per_condition_timeout=60, total_timeout=900):
    """Copy the harness (with substitutions) to the scratch dir and run `crosshair check --report_all`.
    Returns {function: (status, message)} with status in confirmed|refuted|inconclusive."""
    src = open(module_file).read()
    for k, v in (substitutions or {}).items():
        src = re.sub(rf"^{k} = .*$", f"{k} = {v!r}", src, flags=re.M)
    d = scratch_dir()
    path = os.path.join(d, f"ch_{os.getpid()}_{os.path.basename(module_file)}")
    with open(path, "w") as f:
        f.write(src)
    env = dict(os.environ)
    env["PYTHONPATH"] = VERIF + os.pathsep + env.get("PYTHONPATH", "")
    t0 = time.time()
    cmd = [sys.executable, "-m", "crosshair", "check", "--report_all",
           f"--per_condition_timeout={per_condition_timeout}", path]
    try:
        r = subprocess.run(cmd, capture_output=True, text=True, env=env, timeout=total_timeout)
        out = r.stdout + r.stderr
    except subprocess.TimeoutExpired as e:
        out = (e.stdout or "") + (e.stderr or "") if isinstance(e.stdout, str) else ""
        out += "\nTIMEOUT"
    finally:
        try:
            os.unlink(path)
        except OSError:
            pass
    return parse_report(out, src), out, time.time() - t0


def parse_report(out: str, src: str):
    """CrossHair prints `file:line: info|error: message`; map line numbers to enclosing function names."""
    lines = src.split("\n")
    starts = [(i + 1, m.group(1)) for i, ln in enumerate(lines) for m in [re.match(r"def (\w+)\(", ln)] if m]

    def fn_at(lineno):
        name = None
        for ln, n in starts:
            if ln <= lineno:
                name = n
        return name
    res = {}
    for m in re.finditer(r":(\d+): (info|error): (.*)", out):
        fn = fn_at(int(m.group(1)))
        kind, msg = m.group(2), m.group(3)
        if fn is None:
            continue
        if kind == "error":
            res[fn] = ("refuted", msg)
        elif "Confirmed over all paths" in msg:
            res.setdefault(fn, ("confirmed", msg))
        else:
            if fn not in res or res[fn][0] != "refuted":
                res[fn] = ("inconclusive", msg)
    return res


def lemma_result(oid, module_file, fn, subs, pct, bounds_text, describe, witness_class):
    """Run one CrossHair contract and turn it into a Result: confirmed -> holds; a counterexample is re-run on the
    plain function (no CrossHair) and only a reproducing one is a violation; everything else is inconclusive."""
    import importlib.util
    from .common import Result
    res = Result(oid, "holds")
    report, raw, dt = run_crosshair(module_file, subs, per_condition_timeout=pct, total_timeout=pct * 2 + 60)
    res.solver_s, res.queries = dt, 1
    st, msg = report.get(fn, ("inconclusive", "no report line: " + raw[-300:]))
    res.sample = {"obligation": oid, "contract": fn, "status": st, "engine": "crosshair-tool", "bounds": bounds_text}
    if st == "confirmed":
        return res
    if st == "refuted":
        m = re.search(r"calling \w+\((.*)\) \(which", msg)
        args = None
        if m:
            try:
                args = eval("(" + m.group(1) + ",)", {"__builtins__": {}})
            except Exception:
                args = None
        ok = None
        if isinstance(args, tuple):
            src = open(module_file).read()
            for k, v in (subs or {}).items():
                src = re.sub(rf"^{k} = .*$", f"{k} = {v!r}", src, flags=re.M)
            ns = {"__name__": "verif_lemma_replay"}
            try:
                exec(compile(src, module_file, "exec"), ns)
                ok = ns[fn](*args)
            except Exception as e:      # noqa: BLE001
                ok = f"{type(e).__name__}: {e}"
        if ok is False:
            res.verdict = "violation"
            res.detail = describe(args)
            res.witness = {"args": [repr(a) for a in args], "class": witness_class}
            return res
        res.verdict, res.detail = "inconclusive", f"counterexample did not replay ({ok!r}): {msg}"[:300]
        return res
    res.verdict, res.detail = "inconclusive", f"{fn}: {msg}"[:300]
    return res
