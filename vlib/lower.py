"""Transpile with the live Reduino tree and lower the C++ with the real front end."""
from __future__ import annotations

import os
import shutil
import subprocess
import tempfile

from . import irparse

VERIF = os.path.dirname(os.path.dirname(os.path.abspath(__file__)))
MOCK = os.path.join(VERIF, "mock", "arduino")
CLANG = shutil.which("clang++-14") or shutil.which("clang++")
OPT = shutil.which("opt-14") or shutil.which("opt")

CLANG_FLAGS = ["-std=gnu++17", "-O0", "-Xclang", "-disable-O0-optnone", "-fno-rtti",
               "-ffp-contract=off", "-fno-threadsafe-statics", "-nostdinc++", "-w",
               "-I" + MOCK]


class CompileError(Exception):
    def __init__(self, stage, output):
        super().__init__(f"{stage}: {output[:2000]}")
        self.stage = stage
        self.output = output


_SCRATCH = None


def scratch_dir():
    global _SCRATCH
    if _SCRATCH is None:
        shared = os.environ.get("VERIF_SCRATCH_RUN")
        if shared and os.path.isdir(shared):
            # one directory per check run, created and removed by vlib/run.py; files carry the pid of their process
            _SCRATCH = shared
            return _SCRATCH
        base = os.environ.get("VERIF_SCRATCH") or tempfile.gettempdir()
        _SCRATCH = tempfile.mkdtemp(prefix="reduino-verif-", dir=base)
        import atexit
        atexit.register(lambda: shutil.rmtree(_SCRATCH, ignore_errors=True))
    return _SCRATCH


def transpile(src: str) -> str:
    from Reduino.transpile.parser import parse
    from Reduino.transpile.emitter import emit
    return emit(parse(src))


def syntax_check(cpp: str, tag="sketch"):
    d = scratch_dir()
    path = os.path.join(d, f"{tag}-{os.getpid()}.cpp")
    with open(path, "w") as f:
        f.write(cpp)
    r = subprocess.run([CLANG] + [x for x in CLANG_FLAGS if x != "-w"] + ["-fsyntax-only", path],
                       capture_output=True, text=True)
    os.unlink(path)
    return r.returncode == 0, r.stderr


def lower_cpp(cpp: str, tag="sketch", extra_flags=()) -> irparse.Module:
    d = scratch_dir()
    base = os.path.join(d, f"{tag}-{os.getpid()}")
    cppf, ll, m2r = base + ".cpp", base + ".ll", base + ".m2r.ll"
    with open(cppf, "w") as f:
        f.write(cpp)
    try:
        r = subprocess.run([CLANG] + CLANG_FLAGS + list(extra_flags) + ["-S", "-emit-llvm", cppf, "-o", ll],
                           capture_output=True, text=True)
        if r.returncode != 0:
            raise CompileError("clang", r.stderr)
        r = subprocess.run([OPT, "-passes=mem2reg", "-S", ll, "-o", m2r], capture_output=True, text=True)
        if r.returncode != 0:
            raise CompileError("opt", r.stderr)
        with open(m2r) as f:
            text = f.read()
    finally:
        for p in (cppf, ll, m2r):
            if os.path.exists(p):
                os.unlink(p)
    return irparse.parse_ir(text)
