"""Host observation map: turn the real host classes' state changes into the event vocabulary
shared with the firmware trace, and inject sensor inputs where the host model keeps them.
Nothing in /repo is modified: wrappers are installed on the freshly loaded module objects.
"""
from __future__ import annotations

import ast
import z3

from . import pysym
from .pysym import eng

ANALOG_BASE = 14


def pin_number(pin):
    """'A0' -> 14 (Uno numbering used by the mock core), digit strings -> int."""
    if isinstance(pin, str):
        t = pin.strip()
        if t.isdigit():
            return int(t)
        if t and t[0] == "A" and t[1:].isdigit():
            return ANALOG_BASE + int(t[1:])
        raise pysym.Unsupported(f"pin name {pin!r}")
    if pysym.is_sym(pin):
        return eng().concretize(pysym.zint(pin))
    return int(pin)


class Devices:
    """What the host run declared (pins per device kind) - used to normalise the firmware trace."""

    def __init__(self):
        self.led_pins = set()
        self.rgb_pins = set()
        self.motor = []      # (in1, in2, en)
        self.input_pins = set()   # buttons, pots, ultrasonic
        self.buttons = []    # Button objects in declaration order
        self.servos = []
        self.servo_pins = set()
        self.lcds = []

    def device_pins(self):
        s = set(self.led_pins) | set(self.rgb_pins) | set(self.input_pins) | set(self.servo_pins)
        for m in self.motor:
            s |= set(m)
        return s


def build_world(patched=True):
    """Load the real host modules in an isolated world and install the observation wrappers."""
    hw = pysym.HostWorld(patched=patched)
    dev = Devices()
    hw.devices = dev
    hw.button_pins_seen = set()
    hw.cur_samples = {}
    hw.in_pass = False

    # ---- Utils.sleep -> delay event (after the real validation)
    U = hw.load("Reduino.Utils")
    real_sleep = U.sleep

    def sleep(duration, **kw):
        real_sleep(duration, **kw)
        eng().emit("delay", duration)
    U.sleep = sleep

    A = hw.load("Reduino.Actuators")
    A.sleep = sleep

    # ---- Led
    Led = A.Led
    led_init = Led.__init__
    led_sb = Led.set_brightness

    def Led_init(self, *a, **k):
        led_init(self, *a, **k)
        dev.led_pins.add(pin_number(self.pin))

    def Led_sb(self, value):
        led_sb(self, value)
        eng().emit("level", pin_number(self.pin), self.brightness)
    Led.__init__ = Led_init
    Led.set_brightness = Led_sb

    # ---- RGBLed
    RGB = A.RGBLed
    rgb_init = RGB.__init__
    rgb_sc = RGB.set_color

    def RGB_init(self, *a, **k):
        rgb_init(self, *a, **k)
        for p in self._pins:
            dev.rgb_pins.add(pin_number(p))

    def RGB_sc(self, red, green, blue):
        rgb_sc(self, red, green, blue)
        for p, v in zip(self._pins, self._color):
            eng().emit("level", pin_number(p), v)
    RGB.__init__ = RGB_init
    RGB.set_color = RGB_sc

    # ---- Servo
    Sv = A.Servo
    sv_init = Sv.__init__
    sv_w = Sv.write
    sv_wus = Sv.write_us

    def Sv_init(self, *a, **k):
        sv_init(self, *a, **k)
        dev.servos.append(self)
        dev.servo_pins.add(pin_number(self.pin))
        eng().emit("servo_attach", pin_number(self.pin), self._min_pulse, self._max_pulse)


    def Sv_w(self, angle):
        sv_w(self, angle)
        eng().emit("servo_angle", pin_number(self.pin), self._current_angle, self._current_pulse)

    def Sv_wus(self, pulse):
        sv_wus(self, pulse)
        eng().emit("servo_pulse", pin_number(self.pin), self._current_angle, self._current_pulse)
    Sv.__init__ = Sv_init
    Sv.write = Sv_w
    Sv.write_us = Sv_wus

    # ---- DCMotor
    M = A.DCMotor
    m_init = M.__init__
    m_apply = M._apply_speed
    m_stop = M.stop
    m_coast = M.coast

    def M_init(self, *a, **k):
        m_init(self, *a, **k)
        dev.motor.append(tuple(pin_number(p) for p in self.pins))


    def M_apply(self, speed):
        m_apply(self, speed)
        # the mode the real class decided on this path ("coast" when the effective speed is +-0.0, else "drive")
        mode = self._mode if self._mode in ("drive", "coast") else "drive"
        eng().emit("motor", tuple(pin_number(p) for p in self.pins), mode, self._applied_speed if mode == "drive" else 0.0)

    def M_stop(self):
        m_stop(self)
        eng().emit("motor", tuple(pin_number(p) for p in self.pins), "brake", 0.0)

    def M_coast(self):
        m_coast(self)
        eng().emit("motor", tuple(pin_number(p) for p in self.pins), "coast", 0.0)
    M.__init__ = M_init
    M._apply_speed = M_apply
    M.stop = M_stop
    M.coast = M_coast

    # ---- Core
    C = hw.load("Reduino.Core")

    def pin_mode(pin, mode):
        code = {"INPUT": 0, "OUTPUT": 1, "INPUT_PULLUP": 2}.get(mode, mode)
        eng().emit("pinMode", pin_number(pin), code)

    def digital_write(pin, value):
        eng().emit("dwrite", pin_number(pin), value)

    def analog_write(pin, value):
        eng().emit("awrite", pin_number(pin), value)

    def digital_read(pin):
        p = pin_number(pin)
        v = eng().new_input("dread", p, 32, 0, 1)
        eng().emit("dread", p, v)
        return v

    def analog_read(pin):
        p = pin_number(pin)
        v = eng().new_input("aread", p, 32, 0, 1023)
        eng().emit("aread", p, v)
        return v
    C.pin_mode, C.digital_write, C.analog_write = pin_mode, digital_write, analog_write
    C.digital_read, C.analog_read = digital_read, analog_read

    # ---- Sensors
    S = hw.load("Reduino.Sensors")
    Pot = S.Potentiometer
    pot_init = Pot.__init__

    def Pot_init(self, *a, **k):
        pot_init(self, *a, **k)
        dev.input_pins.add(pin_number(self.pin))

    def Pot_read(self):
        p = pin_number(self.pin)
        v = eng().new_input("aread", p, 32, 0, 1023)
        eng().emit("aread", p, v)
        return v
    Pot.__init__ = Pot_init
    Pot.read = Pot_read

    Btn = S.Button
    btn_init = Btn.__init__

    def Btn_init(self, *a, **k):
        btn_init(self, *a, **k)
        p = pin_number(self.pin)
        dev.input_pins.add(p)
        dev.buttons.append(self)
        if p not in hw.button_pins_seen:
            hw.button_pins_seen.add(p)
            if hw.in_pass:
                # declared at the top of the loop body: the firmware samples it in every pass only
                hw.cur_samples[p] = eng().new_input("dread", p, 32, 0, 1)
            else:
                # declared before the loop: the firmware also samples it once in setup() (index 0)
                # (index 0); an is_pressed() in the prologue reports that level on both sides
                self._verif_initial = eng().new_input("dread", p, 32, 0, 1)
                self._pressed = (self._verif_initial == 1)
        if hw.in_pass and p in hw.cur_samples:
            self._pressed = (hw.cur_samples[p] == 1)
    Btn.__init__ = Btn_init

    # ---- Serial
    Cm = hw.load("Reduino.Communication")

    class _Port:
        def __init__(self, **kw):
            self.is_open = True

        def write(self, payload):
            text = payload.decode("utf-8")
            for piece in eng().split_text(text):
                eng().emit("ser", piece)

        def close(self):
            self.is_open = False

        def readline(self):
            return b""

    Cm.serial = type("backend", (), {"Serial": staticmethod(lambda **kw: _Port(**kw))})
    SM = Cm.SerialMonitor
    sm_init = SM.__init__

    def SM_init(self, *a, **k):
        sm_init(self, *a, **k)
        eng().emit("serial_begin", self.baud_rate)
        if self._serial is None:
            self._serial = _Port()
    SM.__init__ = SM_init

    # ---- LCD: snapshot of the character buffer after every mutating call; backlight pin level
    D = hw.load("Reduino.Displays")
    L = D.LCD
    dev.lcds = []
    lcd_init = L.__init__

    def _snap(self):
        eng().emit("lcd_snapshot", self._verif_idx, tuple(self.buffer), self.cols, self.rows)

    def _backlight_level(self):
        if not self.is_i2c and self.backlight_pin is not None:
            lvl = self.brightness_level if self.backlight_on else 0
            eng().emit("level", pin_number(self.backlight_pin), lvl)
        elif self.is_i2c:
            eng().emit("lcd_backlight", self._verif_idx, 1 if self.backlight_on else 0)

    def L_init(self, *a, **k):
        self._verif_idx = len(dev.lcds)
        dev.lcds.append(self)
        lcd_init(self, *a, **k)
        if not self.is_i2c and self.backlight_pin is not None:
            dev.led_pins.add(pin_number(self.backlight_pin))
        eng().emit("lcd_init", self._verif_idx, self.cols, self.rows)
        _backlight_level(self)
        _snap(self)
    L.__init__ = L_init

    def wrap_text(name):
        orig = getattr(L, name)

        def w(self, *a, **k):
            depth = getattr(self, "_verif_depth", 0)
            self._verif_depth = depth + 1
            try:
                r = orig(self, *a, **k)
            finally:
                self._verif_depth = depth
            if depth == 0:
                _snap(self)
            return r
        setattr(L, name, w)
    for _n in ("write", "line", "message", "clear", "progress", "animate", "tick"):
        wrap_text(_n)

    def wrap_light(name):
        orig = getattr(L, name)

        def w(self, *a, **k):
            r = orig(self, *a, **k)
            if name == "display":
                eng().emit("lcd_display", self._verif_idx, 1 if self.display_on else 0)
            _backlight_level(self)
            return r
        setattr(L, name, w)
    for _n in ("display", "backlight", "brightness"):
        wrap_light(_n)
    l_glyph = L.glyph

    def L_glyph(self, slot, bitmap):
        l_glyph(self, slot, bitmap)
        eng().emit("lcd_glyph", self._verif_idx, int(slot), tuple(self.glyphs[int(slot)]))
    L.glyph = L_glyph
    return hw


def _py_live(g):
    """Total size of the list/str data the script holds in its globals (the 'live data' of property C09)."""
    n = 0
    for k, v in g.items():
        if k.startswith("__"):
            continue
        if isinstance(v, (list, str, tuple)):
            n += len(v)
    return n


def pass_start(hw, g=None):
    """Called at the top of every main-loop pass of the transformed script."""
    if g is not None:
        eng().emit("pyheap", _py_live(g))
    eng().emit("marker", "loop")
    hw.in_pass = True
    hw.cur_samples = {}
    for p in sorted(hw.button_pins_seen):
        hw.cur_samples[p] = eng().new_input("dread", p, 32, 0, 1)
    for b in hw.devices.buttons:
        p = pin_number(b.pin)
        if p in hw.cur_samples:
            b._pressed = (hw.cur_samples[p] == 1)


class _LoopRewriter(ast.NodeTransformer):
    pass


def transform_script(src: str, passes: int) -> ast.Module:
    """Top-level `while True:` -> `for __pass in range(passes): __pass_start(); body`.
    Everything else is left exactly as written."""
    tree = ast.parse(src)
    new_body = []
    found = False
    for node in tree.body:
        if (isinstance(node, ast.While) and isinstance(node.test, ast.Constant) and node.test.value is True
                and not found):
            found = True
            call = ast.Expr(ast.Call(ast.Name("__pass_start", ast.Load()), [], []))
            loop = ast.For(target=ast.Name("__pass", ast.Store()),
                           iter=ast.Call(ast.Name("__range", ast.Load()), [ast.Constant(passes)], []),
                           body=[call] + node.body, orelse=[])
            new_body.append(ast.Expr(ast.Call(ast.Name("__setup_done", ast.Load()), [], [])))
            new_body.append(loop)
        else:
            new_body.append(node)
    if not found:
        # no main loop in the script: loop() is empty, passes still happen on the device
        new_body.append(ast.Expr(ast.Call(ast.Name("__setup_done", ast.Load()), [], [])))
        new_body.append(ast.For(target=ast.Name("__pass", ast.Store()),
                                iter=ast.Call(ast.Name("__range", ast.Load()), [ast.Constant(passes)], []),
                                body=[ast.Expr(ast.Call(ast.Name("__pass_start", ast.Load()), [], []))], orelse=[]))
    tree.body = new_body
    ast.fix_missing_locations(tree)
    return tree


def run_script(src: str, passes: int, patched=True, setup_done=None):
    """Execute a user script against the instrumented host world (must be inside an engine run).
    setup_done(globals) is called between the prologue and the first main-loop pass."""
    hw = build_world(patched=patched)
    tree = transform_script(src, passes)
    code = compile(tree, "<script>", "exec")
    eng().emit("marker", "setup")
    g = {"__builtins__": hw.builtins, "__name__": "__main__", "__package__": None,
         "__pass_start": lambda: pass_start(hw, g), "__range": range,
         "__setup_done": (lambda: setup_done(g, hw)) if setup_done else (lambda: None)}
    exec(code, g)
    eng().emit("pyheap", _py_live(g))
    # buttons whose object is still bound to a script name at the end (a re-bound name leaves a dead object behind)
    hw.devices.live_button_pins = {pin_number(b.pin) for b in hw.devices.buttons if any(v is b for v in g.values())}
    return hw
