"""Driver: python -m vlib.run <ID> [--tier quick|thorough] [--replay PATH]"""
from __future__ import annotations

import argparse
import importlib
import os
import sys
import time


def main(argv=None):
    ap = argparse.ArgumentParser()
    ap.add_argument("prop")
    ap.add_argument("--tier", default=os.environ.get("VERIF_TIER", "quick"), choices=["quick", "thorough"])
    ap.add_argument("--replay", default=None)
    ap.add_argument("--only", default=None, help="substring filter on obligation ids (debugging)")
    a = ap.parse_args(argv)
    seed = int(os.environ.get("VERIF_SEED", "0") or 0)
    os.environ["REDUINO_VERIF"] = "1"
    mod = importlib.import_module(f"vlib.props.{a.prop.lower()}")
    if a.replay:
        return mod.replay(a.replay)
    # one scratch directory for the whole run (every obligation runs in its own forked process), removed at the end
    import shutil
    import tempfile
    scratch = tempfile.mkdtemp(prefix="reduino-verif-", dir=os.environ.get("VERIF_SCRATCH") or None)
    os.environ["VERIF_SCRATCH_RUN"] = scratch
    try:
        return mod.run(a.tier, seed, only=a.only)
    finally:
        shutil.rmtree(scratch, ignore_errors=True)


if __name__ == "__main__":
    sys.exit(main())
