"""Solver portfolio: z3 (Python API, fresh solver => tactic pipeline) first, then the cvc5 and z3
binaries on the same SMT-LIB text when z3 answers unknown.  `unknown` from everything stays unknown
(inconclusive); an `(error` in a binary's output is treated as unknown.  Models returned by a
binary are re-validated by evaluating every assertion under the assignment with z3.
"""
from __future__ import annotations

import os
import re
import shutil
import struct
import subprocess
import tempfile
import time
from typing import Dict, List, Optional, Tuple

import z3

CVC5 = shutil.which("cvc5")
Z3BIN = shutil.which("z3-new") or shutil.which("z3")

# first z3py attempt on floating-point queries (ms).  Measured: 3000 keeps the actuator steps of C04 inside their
# budgets when 16 workers run at once (each external race costs two more processes); 400-600 is better only for
# obligations dominated by the constant-divisor kernels, which now avoid most FP queries by construction.
FP_FIRST_MS = int(os.environ.get("VERIF_FP_FIRST_MS", "3000"))
STATS = {"z3py": 0, "cvc5": 0, "z3bin": 0, "unknown": 0, "ext_s": 0.0}


def _scratch():
    from .lower import scratch_dir
    return scratch_dir()


_VARS_CACHE: Dict[int, frozenset] = {}
_KEEP = []          # keeps the cached terms alive so that ids are not re-used


def vars_of(term) -> frozenset:
    """Names of the uninterpreted constants of a z3 term (memoised per AST id)."""
    tid = term.get_id()
    got = _VARS_CACHE.get(tid)
    if got is not None:
        return got
    seen = set()
    out = set()
    stack = [term]
    while stack:
        t = stack.pop()
        i = t.get_id()
        if i in seen:
            continue
        seen.add(i)
        sub = _VARS_CACHE.get(i)
        if sub is not None:
            out |= sub
            continue
        if z3.is_app(t):
            if t.num_args() == 0:
                if t.decl().kind() == z3.Z3_OP_UNINTERPRETED:
                    out.add(t.decl().name())
            else:
                stack.extend(t.children())
        elif z3.is_quantifier(t):
            stack.append(t.body())
    res = frozenset(out)
    if len(_VARS_CACHE) > 200000:
        _VARS_CACHE.clear()
        del _KEEP[:]
    _VARS_CACHE[tid] = res
    _KEEP.append(term)
    return res


_FP_CACHE: Dict[int, bool] = {}


def has_fp(term) -> bool:
    """Does the term mention a floating-point (or real) sorted sub-term?  Memoised per AST id."""
    tid = term.get_id()
    got = _FP_CACHE.get(tid)
    if got is not None:
        return got
    seen = set()
    stack = [term]
    res = False
    while stack:
        t = stack.pop()
        i = t.get_id()
        if i in seen:
            continue
        seen.add(i)
        sub = _FP_CACHE.get(i)
        if sub is True:
            res = True
            break
        if sub is False:
            continue
        k = t.sort().kind()
        if k in (z3.Z3_FLOATING_POINT_SORT, z3.Z3_ROUNDING_MODE_SORT, z3.Z3_REAL_SORT):
            res = True
            break
        if z3.is_app(t):
            stack.extend(t.children())
        elif z3.is_quantifier(t):
            stack.append(t.body())
    if len(_FP_CACHE) > 400000:
        _FP_CACHE.clear()
    _FP_CACHE[tid] = res
    _KEEP.append(term)
    return res


def slice_independent(base: List, extra: List) -> Tuple[List, List]:
    """Split `base` (a path condition known to be satisfiable) into the conjuncts that share variables, directly or
    transitively, with `extra`, and the rest.  sat(base & extra) <=> sat(relevant & extra), because the rest is
    satisfiable on its own and shares no variable with the relevant part."""
    target = set()
    for e in extra:
        target |= vars_of(e)
    if not target:
        return list(base), []
    info = [(c, vars_of(c)) for c in base]
    chosen = [False] * len(info)
    changed = True
    while changed:
        changed = False
        for i, (c, vs) in enumerate(info):
            if not chosen[i] and vs & target:
                chosen[i] = True
                target |= vs
                changed = True
    rel = [c for i, (c, _) in enumerate(info) if chosen[i]]
    rest = [c for i, (c, _) in enumerate(info) if not chosen[i]]
    return rel, rest


def solve_sliced(base: List, extra: List, *, timeout_ms=20000, first_ms=None, model_vars: Optional[List] = None,
                 external=True) -> Tuple[str, Optional[Dict]]:
    """solve(base + extra) by constraint independence: only the part of the (satisfiable) path condition `base` that is
    connected to `extra` is sent to the solver; a model is completed with a model of the independent rest."""
    rel, rest = slice_independent(base, extra)
    if not rest:
        return solve(rel + list(extra), timeout_ms=timeout_ms, first_ms=first_ms, model_vars=model_vars, external=external)
    STATS["sliced"] = STATS.get("sliced", 0) + 1
    relvars = set()
    for c in rel + list(extra):
        relvars |= vars_of(c)
    mv = list(model_vars or [])
    mv_rel = [v for v in mv if str(v) in relvars]
    r, m = solve(rel + list(extra), timeout_ms=timeout_ms, first_ms=first_ms, model_vars=mv_rel if model_vars is not None else None,
                 external=external)
    if r != "sat" or model_vars is None:
        return r, m
    mv_rest = [v for v in mv if str(v) not in relvars]
    r2, m2 = solve(rest, timeout_ms=timeout_ms, first_ms=first_ms, model_vars=mv_rest, external=external)
    if r2 != "sat":
        # the rest should be satisfiable (it is part of a feasible path); fall back to the unsliced query
        return solve(list(base) + list(extra), timeout_ms=timeout_ms, first_ms=first_ms, model_vars=model_vars, external=external)
    m = dict(m or {})
    m.update(m2 or {})
    return "sat", m


def solve(assertions: List, *, timeout_ms=20000, first_ms=None, model_vars: Optional[List] = None,
          external=True) -> Tuple[str, Optional[Dict]]:
    """Return (status, model) where model maps str(var) -> python value for model_vars (if sat).

    Floating-point queries: a z3py attempt of FP_FIRST_MS settles the easy ones; then a cvc5 process and a z3 5.1 CLI process
    are raced on the SMT-LIB text of the same assertions: cvc5 decides the kernels that occur here (division/
    multiplication by constants, rounding to integral, symbolic divisors) in a fraction of z3's time, z3 wins others
    (the servo linear map).  Whoever answers sat/unsat first is taken; a model is validated against the assertions.
    Other queries: z3py (3 s), then the external back ends.  (An in-process race - z3py in a worker thread,
    interrupted when cvc5 answers first - dead-locked the forked workers and was dropped.)"""
    fp = external and CVC5 and first_ms is None and any(has_fp(a) for a in assertions)
    first = first_ms if first_ms is not None else min(timeout_ms, (FP_FIRST_MS if fp else 3000) if external and CVC5 else timeout_ms)
    s = z3.Solver()
    s.set("timeout", int(first))
    for a in assertions:
        s.add(a)
    r = str(s.check())
    STATS["z3py"] += 1
    if r == "sat":
        m = s.model()
        return "sat", ({str(v): _val(m.eval(v, model_completion=True)) for v in (model_vars or [])})
    if r == "unsat":
        return "unsat", None
    if not external or timeout_ms <= first:
        STATS["unknown"] += 1
        return "unknown", None
    t0 = time.time()
    try:
        res = _external(s, assertions, timeout_ms - first, model_vars or [])
    finally:
        STATS["ext_s"] += time.time() - t0
    if res[0] == "unknown":
        STATS["unknown"] += 1
    return res


def _smt2_text(assertions, model_vars):
    fresh = z3.Solver()
    for a in assertions:
        fresh.add(a)
    text = fresh.to_smt2()
    names = [str(v) for v in model_vars]
    if names:
        text += "(get-value (" + " ".join(_quote(n) for n in names) + "))\n"
    for a, b in (("bvsdiv_i", "bvsdiv"), ("bvudiv_i", "bvudiv"), ("bvsrem_i", "bvsrem"), ("bvurem_i", "bvurem"),
                 ("bvsmod_i", "bvsmod")):
        text = text.replace(a, b)
    return "(set-option :produce-models true)\n(set-logic ALL)\n" + text


def _external(s: z3.Solver, assertions, budget_ms, model_vars):
    # NB: a solver that has already run check() prints its *preprocessed* (bit-blasted, megabytes) state;
    # always print from a fresh solver object.
    fresh = z3.Solver()
    for a in assertions:
        fresh.add(a)
    text = fresh.to_smt2()
    # to_smt2 ends with (check-sat); add get-value for the variables we need
    names = [str(v) for v in model_vars]
    if names:
        text += "(get-value (" + " ".join(_quote(n) for n in names) + "))\n"
    for a, b in (("bvsdiv_i", "bvsdiv"), ("bvudiv_i", "bvudiv"), ("bvsrem_i", "bvsrem"), ("bvurem_i", "bvurem"),
                 ("bvsmod_i", "bvsmod")):
        text = text.replace(a, b)
    text = "(set-option :produce-models true)\n(set-logic ALL)\n" + text
    d = _scratch()
    fd, path = tempfile.mkstemp(prefix="q-", suffix=".smt2", dir=d)
    with os.fdopen(fd, "w") as f:
        f.write(text)
    procs = []
    secs = max(1, int(budget_ms / 1000))
    try:
        if CVC5:
            procs.append(("cvc5", subprocess.Popen([CVC5, "--lang=smt2", f"--tlimit={int(budget_ms)}", path],
                                                   stdout=subprocess.PIPE, stderr=subprocess.PIPE, text=True)))
        z3_started = False
        if Z3BIN:
            # race both back ends: cvc5 wins the FP kernels with constant divisors, z3 wins others (servo linear map)
            z3_started = True
            procs.append(("z3bin", subprocess.Popen([Z3BIN, f"-T:{secs}", path],
                                                    stdout=subprocess.PIPE, stderr=subprocess.PIPE, text=True)))
        deadline = time.time() + budget_ms / 1000.0 + 2
        done = {}
        while time.time() < deadline:
            if not procs:
                if Z3BIN and not z3_started:
                    # cvc5 gave up early (error/unknown): spend what is left on the z3 binary
                    z3_started = True
                    left = max(1, int(deadline - time.time()))
                    procs.append(("z3bin", subprocess.Popen([Z3BIN, f"-T:{left}", path],
                                                            stdout=subprocess.PIPE, stderr=subprocess.PIPE, text=True)))
                else:
                    break
            for name, p in list(procs):
                if p.poll() is not None:
                    out = p.stdout.read()
                    procs.remove((name, p))
                    status = _status(out)
                    done[name] = (status, out)
                    if status in ("sat", "unsat"):
                        STATS[name] += 1
                        if status == "unsat":
                            return "unsat", None
                        model = _parse_values(out, model_vars)
                        if model is not None and _validate(assertions, model_vars, model):
                            return "sat", model
                        # unverifiable model: keep looking / give up as unknown
            time.sleep(0.02)
        return "unknown", None
    finally:
        for name, p in procs:
            try:
                p.kill()
            except Exception:
                pass
        try:
            os.unlink(path)
        except OSError:
            pass


def _quote(n):
    return n if re.fullmatch(r"[A-Za-z_][A-Za-z0-9_.]*", n) else "|" + n + "|"


def _status(out: str) -> str:
    """First verdict line; an (error before it makes the answer untrustworthy (=> unknown).  An error *after*
    the verdict (e.g. get-value after unsat) is harmless."""
    for line in out.splitlines():
        line = line.strip()
        if line.startswith("(error"):
            return "unknown"
        if line in ("sat", "unsat"):
            return line
        if line in ("unknown", "timeout"):
            return "unknown"
    return "unknown"


def _val(v):
    if z3.is_bv_value(v):
        n = v.as_long()
        if v.size() < 64:   # narrow variables are device inputs: unsigned
            return n
        return n - (1 << v.size()) if n >> (v.size() - 1) else n
    if z3.is_fp_value(v):
        if v.isNaN():
            return float("nan")
        bits = z3.simplify(z3.fpToIEEEBV(v)).as_long()
        if v.ebits() == 8:
            return struct.unpack("<f", struct.pack("<I", bits))[0]
        return struct.unpack("<d", struct.pack("<Q", bits))[0]
    if z3.is_true(v):
        return True
    if z3.is_false(v):
        return False
    if z3.is_rational_value(v):
        from fractions import Fraction
        return Fraction(v.numerator_as_long(), v.denominator_as_long())
    return str(v)


_TOK = re.compile(r"\(|\)|[^\s()]+")


def _parse_sexpr(text):
    toks = _TOK.findall(text)
    pos = 0

    def rd():
        nonlocal pos
        t = toks[pos]
        pos += 1
        if t == "(":
            lst = []
            while toks[pos] != ")":
                lst.append(rd())
            pos += 1
            return lst
        return t
    out = []
    while pos < len(toks):
        out.append(rd())
    return out


def _bits(tok):
    if tok.startswith("#b"):
        return int(tok[2:], 2), len(tok) - 2
    if tok.startswith("#x"):
        return int(tok[2:], 16), 4 * (len(tok) - 2)
    raise ValueError(tok)


def _parse_values(out: str, model_vars):
    try:
        i = out.index("((")
        sx = _parse_sexpr(out[i:])[0]
    except Exception:
        return None
    by_name = {}
    for pair in sx:
        if not isinstance(pair, list) or len(pair) != 2:
            continue
        name = pair[0].strip("|") if isinstance(pair[0], str) else None
        by_name[name] = pair[1]
    model = {}
    for v in model_vars:
        n = str(v)
        if n not in by_name:
            return None
        try:
            model[n] = _decode(by_name[n], v)
        except Exception:
            return None
    return model


def _decode(sx, var):
    srt = var.sort()
    if isinstance(sx, str):
        if sx in ("true", "false"):
            return sx == "true"
        n, w = _bits(sx)
        if w < 64:
            return n
        return n - (1 << w) if n >> (w - 1) else n
    if sx[0] == "fp":
        s, _ = _bits(sx[1])
        e, ew = _bits(sx[2])
        m, mw = _bits(sx[3])
        bits = (s << (ew + mw)) | (e << mw) | m
        if ew == 8:
            return struct.unpack("<f", struct.pack("<I", bits))[0]
        return struct.unpack("<d", struct.pack("<Q", bits))[0]
    if sx[0] == "_":
        kind = sx[1]
        if kind == "+zero":
            return 0.0
        if kind == "-zero":
            return -0.0
        if kind == "+oo":
            return float("inf")
        if kind == "-oo":
            return float("-inf")
        if kind == "NaN":
            return float("nan")
        if kind.startswith("bv"):
            n, w = int(kind[2:]), int(sx[2])
            if w < 64:
                return n
            return n - (1 << w) if n >> (w - 1) else n
    raise ValueError(str(sx))


def to_z3_value(var, val):
    srt = var.sort()
    if z3.is_bv_sort(srt):
        return z3.BitVecVal(val, srt.size())
    if z3.is_fp_sort(srt):
        return z3.FPVal(val, srt)
    if srt == z3.BoolSort():
        return z3.BoolVal(bool(val))
    if srt == z3.RealSort():
        return z3.RealVal(str(val))
    raise ValueError("sort")


def _validate(assertions, model_vars, model) -> bool:
    subs = [(v, to_z3_value(v, model[str(v)])) for v in model_vars]
    for a in assertions:
        r = z3.simplify(z3.substitute(a, *subs))
        if not z3.is_true(r):
            # variables outside model_vars may remain: ask z3 (cheap, mostly concrete)
            s = z3.Solver()
            s.set("timeout", 5000)
            s.add(r)
            if str(s.check()) != "sat":
                return False
    return True
