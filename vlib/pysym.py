"""pysym - symbolic execution of real Python code under CPython with z3 proxies.

The real host modules (and user scripts) run on the real interpreter; only values
are symbolic: Python ints are signed 64-bit bit-vectors (range assumptions stated by
the caller), floats are IEEE binary64 (z3 FP, round-nearest-even), bools are z3 Bool.
Control flow forks at every truth test of a symbolic bool: paths are enumerated by
re-execution with a decision prefix, one incremental solver, feasibility decided by
z3.  Builtins that would concretise a proxy (int, float, round, isinstance, range,
len, str, ...) are replaced *inside the namespaces of the executed modules* by
proxy-aware versions; nothing in /repo is modified.
"""
from __future__ import annotations

import builtins as _bi
import importlib.util
import os
import struct
import sys
import time
import types
from typing import Callable, List, Optional

import z3

from . import smt

RNE = z3.RNE()
RTZ = z3.RTZ()
F64 = z3.Float64()
W = 64
_real_list = list

_real_int = int
_real_float = float
_real_bool = bool
_real_isinstance = isinstance
_real_len = len
_real_str = str
_real_range = range
_real_round = round
_real_abs = abs


class Unsupported(Exception):
    pass


class PathAbort(BaseException):
    """Raised to stop a path (infeasible, truncated)."""

    def __init__(self, reason):
        self.reason = reason


def _simp(e):
    return z3.simplify(e)


# ------------------------------------------------------------------ engine
class Engine:
    current: "Engine" = None

    def __init__(self, *, max_decisions=400, max_paths=2000, timeout_ms=20000):
        self.timeout_ms = timeout_ms
        self.external = True
        self.deadline = None
        self.inc = None
        self.fp_used = False
        self.max_decisions = max_decisions
        self.max_paths = max_paths
        self.stats = {"queries": 0, "solver_s": 0.0, "paths": 0, "unknown": 0}
        # per path
        self.prefix: List[bool] = []
        self.decisions: List[bool] = []
        self.pc: List = []
        self.events: List = []
        self.tokens = {}
        self.in_count = {}
        self.inputs = []
        self.notes = []
        self.pending: List[List[bool]] = []
        self.base: List = []
        self.cur_model = None

    # ---- solver helpers
    def _inc_query(self, extra, want_model):
        """BV-only path conditions: one incremental solver per path (push/pop) is far cheaper."""
        inc = self.inc
        inc.push()
        try:
            for e in extra:
                inc.add(e)
            r = _real_str(inc.check())
            m = None
            if r == "sat" and want_model:
                zm = inc.model()
                m = {n: smt._val(zm.eval(v, model_completion=True)) for n, v in self.inputs}
            return r, m
        finally:
            inc.pop()

    def check(self, *extra):
        """FP involved: non-incremental portfolio query (fresh solver => tactic pipeline; cvc5/z3 binaries on
        unknown).  Otherwise incremental z3."""
        t = time.time()
        self._budget()
        if not self.fp_used and self.inc is not None:
            r, _ = self._inc_query(extra, False)
        else:
            r, _ = smt.solve_sliced(_real_list(self.pc), _real_list(extra), timeout_ms=self._tmo(), external=self.external)
        self.stats["queries"] += 1
        self.stats["solver_s"] += time.time() - t
        if r == "unknown":
            self.stats["unknown"] += 1
        return r

    def model(self, *extra):
        """-> (status, assignment dict name->python value over this path's inputs)"""
        t = time.time()
        self._budget()
        if not self.fp_used and self.inc is not None:
            r, m = self._inc_query(extra, True)
        else:
            r, m = smt.solve_sliced(_real_list(self.pc), _real_list(extra), timeout_ms=self._tmo(), external=self.external,
                                    model_vars=[v for _, v in self.inputs])
        self.stats["queries"] += 1
        self.stats["solver_s"] += time.time() - t
        if r == "unknown":
            self.stats["unknown"] += 1
        return r, m

    def _budget(self):
        if self.deadline is not None and time.time() > self.deadline:
            self.notes.append(("truncated", "time-budget"))
            raise PathAbort("truncated:time-budget")

    def _tmo(self):
        if self.deadline is None:
            return self.timeout_ms
        left = _real_int((self.deadline - time.time()) * 1000) + 500
        return max(500, min(self.timeout_ms, left))

    def eval_under(self, assignment, term):
        subs = [(v, smt.to_z3_value(v, assignment[n])) for n, v in self.inputs if n in assignment]
        return _simp(z3.substitute(term, *subs)) if subs else _simp(term)

    def assume(self, cond):
        cond = _simp(cond)
        if z3.is_true(cond):
            return
        self.pc.append(cond)
        if self.inc is not None:
            self.inc.add(cond)
        if self.cur_model is not None and not z3.is_true(self.eval_under(self.cur_model, cond)):
            self.cur_model = None

    def decide(self, cond) -> bool:
        """Truth value of a symbolic bool on this path."""
        cond = _simp(cond)
        if z3.is_true(cond):
            return True
        if z3.is_false(cond):
            return False
        i = _real_len(self.decisions)
        if i < _real_len(self.prefix):
            choice = self.prefix[i]
            self.cur_model = None
        else:
            if i >= self.max_decisions:
                self.notes.append(("truncated", "max-decisions"))
                raise PathAbort("truncated:max-decisions")
            # one side is known feasible from a cached model of the path condition
            known = None
            if self.cur_model is None:
                r, m = self.model()
                if r == "sat":
                    self.cur_model = m
                elif r == "unsat":
                    raise PathAbort("infeasible")
                else:
                    self.notes.append(("solver-unknown", "decide"))
            if self.cur_model is not None:
                v = self.eval_under(self.cur_model, cond)
                if z3.is_true(v):
                    known = True
                elif z3.is_false(v):
                    known = False
            if known is None:
                rt = self.check(cond)
                rf = self.check(z3.Not(cond))
                if rt == "unknown" or rf == "unknown":
                    self.notes.append(("solver-unknown", "decide"))
                t_ok, f_ok = rt != "unsat", rf != "unsat"
                self.cur_model = None
            else:
                other = z3.Not(cond) if known else cond
                ro, mo = self.model(other)
                if ro == "unknown":
                    self.notes.append(("solver-unknown", "decide"))
                o_ok = ro != "unsat"
                t_ok, f_ok = (True, o_ok) if known else (o_ok, True)
            if t_ok and f_ok:
                self.pending.append(self.decisions + [False])
                choice = True
            elif t_ok:
                choice = True
            elif f_ok:
                choice = False
            else:
                raise PathAbort("infeasible")
            if known is not None and choice != known:
                self.cur_model = mo if ro == "sat" else None
        self.decisions.append(choice)
        c = cond if choice else z3.Not(cond)
        self.pc.append(c)
        if self.inc is not None:
            self.inc.add(c)
        return choice

    def concretize(self, bv, limit=64):
        """Fork over the feasible values of a bit-vector term (bounded)."""
        bv = _simp(bv)
        if z3.is_bv_value(bv):
            v = bv.as_long()
            return v - (1 << bv.size()) if v >> (bv.size() - 1) else v
        for _ in _real_range(limit):
            r, m = self.model()
            if r != "sat":
                raise PathAbort("infeasible")
            k = self.eval_under(m, bv)
            if not z3.is_bv_value(k):
                ss = z3.Solver()
                for c in self.pc:
                    ss.add(c)
                if _real_str(ss.check()) != "sat":
                    raise PathAbort("infeasible")
                k = ss.model().eval(bv, model_completion=True)
            if self.decide(bv == k):
                v = k.as_long()
                return v - (1 << bv.size()) if v >> (bv.size() - 1) else v
        self.notes.append(("truncated", "concretize-limit"))
        raise PathAbort("truncated:concretize")

    # ---- inputs / tokens
    def new_input(self, kind, key, width=32, lo=None, hi=None, signed_ext=True):
        k = self.in_count.get((kind, key), 0)
        self.in_count[(kind, key)] = k + 1
        name = f"in_{kind}_{key}_{k}"
        nb = None
        if lo == 0 and hi is not None and hi > 0 and (hi + 1) & hi == 0 and hi.bit_length() < width:
            nb = hi.bit_length()
        if nb is not None:
            var = z3.BitVec(name, nb)   # same narrow sort as the firmware side uses for this input
            self.inputs.append((name, var))
            return SymInt(z3.ZeroExt(W - nb, var))
        var = z3.BitVec(name, width)
        self.inputs.append((name, var))
        if lo is not None:
            self.assume(z3.UGE(var, z3.BitVecVal(lo, width)))
        if hi is not None:
            self.assume(z3.ULE(var, z3.BitVecVal(hi, width)))
        if width < W:
            return SymInt(z3.SignExt(W - width, var) if signed_ext else z3.ZeroExt(W - width, var))
        return SymInt(var)

    def new_token(self, kind, *payload):
        tid = _real_len(self.tokens)
        self.tokens[tid] = (kind,) + payload
        return f"\x00{tid}\x00"

    def split_text(self, text: str):
        """Split a str containing tokens into pieces."""
        out = []
        parts = text.split("\x00")
        for i, p in enumerate(parts):
            if i % 2 == 0:
                for ch in p:
                    out.append(("c", ord(ch)))
            else:
                out.append(self.tokens[_real_int(p)])
        return out

    def emit(self, *ev):
        self.events.append(ev)

    # ---- exploration
    def explore(self, fn: Callable[[], object], on_path: Callable[["PathOutcome"], None], base=()):
        """Run fn() over all feasible paths. base: constraints assumed on every path."""
        self.pending = [[]]
        prev = Engine.current
        Engine.current = self
        try:
            while self.pending:
                if self.stats["paths"] >= self.max_paths:
                    on_path(PathOutcome(self, "truncated:max-paths", None, None))
                    break
                if self.deadline is not None and time.time() > self.deadline:
                    self.notes = [("truncated", "time-budget")]
                    on_path(PathOutcome(self, "truncated:time-budget", None, None))
                    break
                self.prefix = self.pending.pop()
                self.cur_model = None
                self.inc = z3.Solver()
                self.inc.set("timeout", self.timeout_ms)
                self.fp_used = False
                self.decisions = []
                self.pc = []
                self.events = []
                self.tokens = {}
                self.in_count = {}
                self.inputs = []
                self.notes = []
                try:
                    for b in base:
                        self.assume(b)
                    status, result, exc = "ok", None, None
                    try:
                        result = fn()
                    except PathAbort as pa:
                        status = pa.reason
                    except Unsupported as u:
                        status = "unsupported:" + _real_str(u)
                        self.notes.append(("unsupported", _real_str(u)))
                    except RecursionError:
                        status = "unsupported:recursion"
                    except Exception as e:  # a Python-level exception is a legitimate outcome
                        status = "raised"
                        exc = e
                    self.stats["paths"] += 1
                    if status != "infeasible":
                        on_path(PathOutcome(self, status, result, exc))
                finally:
                    pass
        finally:
            Engine.current = prev


class PathOutcome:
    def __init__(self, eng: Engine, status, result, exc):
        self.status = status
        self.result = result
        self.exc = exc
        self.pc = list(eng.pc)
        self.events = list(eng.events)
        self.tokens = dict(eng.tokens)
        self.inputs = list(eng.inputs)
        self.notes = list(eng.notes)
        self.decisions = list(eng.decisions)
        self.fp_used = getattr(eng, "fp_used", False)


def eng() -> Engine:
    e = Engine.current
    if e is None:
        raise RuntimeError("no active pysym engine")
    return e


# ------------------------------------------------------------------ proxies
def _bvval(x):
    return z3.BitVecVal(x, W)


def _to_bv(x):
    if _real_isinstance(x, SymInt):
        return x.z
    if _real_isinstance(x, SymBool):
        return z3.If(x.z, _bvval(1), _bvval(0))
    if _real_isinstance(x, _real_bool):
        return _bvval(1 if x else 0)
    if _real_isinstance(x, _real_int):
        if not -(1 << 63) <= x < (1 << 63):
            raise Unsupported("int constant beyond 64 bits")
        return _bvval(x)
    return None


def _to_fp(x):
    if _real_isinstance(x, SymFloat):
        return x.z
    if _real_isinstance(x, _real_float):
        return z3.FPVal(x, F64)
    b = _to_bv(x)
    if b is not None:
        return z3.fpSignedToFP(RNE, b, F64)
    return None


def _mk_int(e):
    e = _simp(e)
    if z3.is_bv_value(e):
        v = e.as_long()
        return v - (1 << W) if v >> (W - 1) else v
    return SymInt(e)


def _fp_to_py(e):
    bits = _simp(z3.fpToIEEEBV(e))
    if z3.is_bv_value(bits):
        return struct.unpack("<d", struct.pack("<Q", bits.as_long()))[0]
    return None


def _mk_float(e):
    e = _simp(e)
    if z3.is_fp_value(e) and not e.isNaN():
        v = _fp_to_py(e)
        if v is not None:
            return v
    return SymFloat(e)


def _pow2_recip(bz):
    """If bz is an FP numeral that is a (non-zero, normal) power of two, return its exact reciprocal."""
    bz = _simp(bz)
    if z3.is_fp_value(bz) and not bz.isNaN() and not bz.isInf() and not bz.isZero():
        v = _fp_to_py(bz)
        if v is not None:
            import math
            m, e = math.frexp(abs(v))
            if m == 0.5 and -500 < e < 500:
                return 1.0 / v
    return None


def fp_div(a, b):
    """IEEE division; x / 2^k is rewritten to the (bit-identical) x * 2^-k, x / 1.0 to x."""
    r = _pow2_recip(b)
    if r is not None:
        if r == 1.0:
            return a
        return z3.fpMul(RNE, a, z3.FPVal(r, F64))
    return z3.fpDiv(RNE, a, b)


def _mk_bool(e):
    e = _simp(e)
    if z3.is_true(e):
        return True
    if z3.is_false(e):
        return False
    return SymBool(e)


def _is_floaty(x):
    return _real_isinstance(x, (SymFloat, _real_float))


def _is_inty(x):
    return _real_isinstance(x, (SymInt, SymBool, _real_int))


def _no_overflow(op, a, b):
    """No signed 64-bit overflow for a op b (assumed and stated; inputs are range-bounded)."""
    if op == "add":
        return z3.And(z3.BVAddNoOverflow(a, b, True), z3.BVAddNoUnderflow(a, b))
    if op == "sub":
        return z3.And(z3.BVSubNoOverflow(a, b), z3.BVSubNoUnderflow(a, b, True))
    return z3.And(z3.BVMulNoOverflow(a, b, True), z3.BVMulNoUnderflow(a, b))


class SymBool:
    __slots__ = ("z",)

    def __init__(self, z):
        self.z = z

    def __bool__(self):
        return eng().decide(self.z)

    def __eq__(self, o):
        if _real_isinstance(o, SymBool):
            return _mk_bool(self.z == o.z)
        if _real_isinstance(o, _real_bool):
            return _mk_bool(self.z if o else z3.Not(self.z))
        return SymInt(_to_bv(self)).__eq__(o)

    def __ne__(self, o):
        r = self.__eq__(o)
        return _mk_bool(z3.Not(r.z)) if _real_isinstance(r, SymBool) else (not r)

    __hash__ = None

    def _as_int(self):
        return SymInt(_to_bv(self))

    def __int__(self):
        raise Unsupported("int() on SymBool outside patched namespace")

    def __index__(self):
        return 1 if eng().decide(self.z) else 0

    def __and__(self, o):
        if _real_isinstance(o, (SymBool, _real_bool)):
            return _mk_bool(z3.And(self.z, o.z if _real_isinstance(o, SymBool) else z3.BoolVal(o)))
        return self._as_int() & o

    __rand__ = __and__

    def __or__(self, o):
        if _real_isinstance(o, (SymBool, _real_bool)):
            return _mk_bool(z3.Or(self.z, o.z if _real_isinstance(o, SymBool) else z3.BoolVal(o)))
        return self._as_int() | o

    __ror__ = __or__

    def __xor__(self, o):
        if _real_isinstance(o, (SymBool, _real_bool)):
            return _mk_bool(z3.Xor(self.z, o.z if _real_isinstance(o, SymBool) else z3.BoolVal(o)))
        return self._as_int() ^ o

    __rxor__ = __xor__

    def __invert__(self):
        return ~self._as_int()

    def __format__(self, spec):
        if spec:
            raise Unsupported("format spec on symbolic bool")
        return "True" if eng().decide(self.z) else "False"

    def __str__(self):
        return "True" if eng().decide(self.z) else "False"

    def __repr__(self):
        return f"<SymBool {str(self.z)[:60]}>"


def _arith(name):
    def f(self, o):
        return getattr(self._as_int(), name)(o)
    f.__name__ = name
    f.__qualname__ = "SymBool." + name
    f.__code__ = f.__code__.replace(co_name=name)
    return f


for _n in ("__add__", "__radd__", "__sub__", "__rsub__", "__mul__", "__rmul__", "__truediv__",
           "__rtruediv__", "__floordiv__", "__rfloordiv__", "__mod__", "__rmod__", "__lt__", "__le__",
           "__gt__", "__ge__", "__neg__", "__pos__", "__abs__", "__pow__", "__rpow__", "__lshift__",
           "__rshift__", "__rlshift__", "__rrshift__"):
    if _n in ("__neg__", "__pos__", "__abs__"):
        setattr(SymBool, _n, (lambda n: lambda self: getattr(self._as_int(), n)())(_n))
    else:
        setattr(SymBool, _n, _arith(_n))


class SymInt:
    """Symbolic Python int (signed 64-bit).  Deliberately NOT a subclass of int: C-level fast paths
    would silently use a dummy value; isinstance() is patched in the executed namespaces instead."""
    __slots__ = ("z",)

    def __init__(self, z):
        self.z = z

    # -- conversions
    def __bool__(self):
        return eng().decide(self.z != _bvval(0))

    def bit_length(self):
        """int.bit_length(): number of bits of |self| (0 for 0)."""
        mag = z3.If(self.z < 0, -self.z, self.z)
        n = _bvval(0)
        for k in _real_range(W - 1):
            n = n + z3.If(z3.UGE(mag, _bvval(1 << k)), _bvval(1), _bvval(0))
        return _mk_int(n)

    def __index__(self):
        return eng().concretize(self.z)

    def __int__(self):
        raise Unsupported("int() on SymInt outside patched namespace")

    def __float__(self):
        raise Unsupported("float() on SymInt outside patched namespace")

    def __hash__(self):
        return hash(eng().concretize(self.z))

    def __format__(self, spec):
        if spec:
            raise Unsupported("format spec on symbolic int")
        return eng().new_token("int", self.z)

    def __str__(self):
        return eng().new_token("int", self.z)

    def __repr__(self):
        return f"<SymInt {_real_str(self.z)[:60]}>"

    # -- arithmetic
    def _bin(self, o, op, rev=False):
        if _is_floaty(o):
            if op in ("and", "or", "xor", "lshift", "rshift"):
                raise TypeError(f"unsupported operand type(s) for bit operation: 'int' and 'float'")
            me = SymFloat(_to_fp(self))
            return getattr(me, ("__r" if rev else "__") + op + "__")(o)
        b = _to_bv(o)
        if b is None:
            return NotImplemented
        a = self.z
        if rev:
            a, b = b, a
        if op in ("add", "sub", "mul"):
            e = {"add": a + b, "sub": a - b, "mul": a * b}[op]
            eng().assume(_no_overflow(op, a, b))
            return _mk_int(e)
        if op in ("floordiv", "mod"):
            zero = _bvval(0)
            if eng().decide(b == zero):
                raise ZeroDivisionError("integer division or modulo by zero")
            q = a / b  # signed, truncating
            r = z3.SRem(a, b)
            adj = z3.And(r != zero, (r < zero) != (b < zero))
            if op == "floordiv":
                return _mk_int(z3.If(adj, q - _bvval(1), q))
            return _mk_int(z3.If(adj, r + b, r))
        if op == "truediv":
            zero = _bvval(0)
            if eng().decide(b == zero):
                raise ZeroDivisionError("division by zero")
            return _mk_float(fp_div(z3.fpSignedToFP(RNE, a, F64), z3.fpSignedToFP(RNE, b, F64)))
        if op == "and":
            return _mk_int(a & b)
        if op == "or":
            return _mk_int(a | b)
        if op == "xor":
            return _mk_int(a ^ b)
        if op in ("lshift", "rshift"):
            if eng().decide(b < _bvval(0)):
                raise ValueError("negative shift count")
            if op == "rshift":
                big = z3.UGE(b, _bvval(W))
                return _mk_int(z3.If(big, z3.If(a < _bvval(0), _bvval(-1), _bvval(0)), a >> b))
            eng().assume(z3.ULT(b, _bvval(31)))
            return _mk_int(a << b)
        if op == "pow":
            bb = _simp(b)
            if not z3.is_bv_value(bb):
                raise Unsupported("symbolic exponent")
            else:
                k = bb.as_long()
                k = k - (1 << W) if k >> (W - 1) else k
            if k < 0:
                return SymFloat(_to_fp(SymInt(a))) ** k
            if k > 16:
                raise Unsupported("large exponent")
            res = _bvval(1)
            for _ in _real_range(k):
                eng().assume(_no_overflow("mul", res, a))
                res = res * a
            return _mk_int(res)
        raise Unsupported(op)

    def __add__(self, o): return self._bin(o, "add")
    def __radd__(self, o): return self._bin(o, "add", True)
    def __sub__(self, o): return self._bin(o, "sub")
    def __rsub__(self, o): return self._bin(o, "sub", True)
    def __mul__(self, o): return self._bin(o, "mul")
    def __rmul__(self, o): return self._bin(o, "mul", True)
    def __floordiv__(self, o): return self._bin(o, "floordiv")
    def __rfloordiv__(self, o): return self._bin(o, "floordiv", True)
    def __mod__(self, o): return self._bin(o, "mod")
    def __rmod__(self, o): return self._bin(o, "mod", True)
    def __truediv__(self, o): return self._bin(o, "truediv")
    def __rtruediv__(self, o): return self._bin(o, "truediv", True)
    def __and__(self, o): return self._bin(o, "and")
    def __rand__(self, o): return self._bin(o, "and", True)
    def __or__(self, o): return self._bin(o, "or")
    def __ror__(self, o): return self._bin(o, "or", True)
    def __xor__(self, o): return self._bin(o, "xor")
    def __rxor__(self, o): return self._bin(o, "xor", True)
    def __lshift__(self, o): return self._bin(o, "lshift")
    def __rlshift__(self, o): return self._bin(o, "lshift", True)
    def __rshift__(self, o): return self._bin(o, "rshift")
    def __rrshift__(self, o): return self._bin(o, "rshift", True)
    def __pow__(self, o, mod=None):
        if mod is not None:
            raise Unsupported("3-arg pow")
        return self._bin(o, "pow")
    def __rpow__(self, o): return self._bin(o, "pow", True)

    def __divmod__(self, o):
        return (self // o, self % o)

    def __neg__(self):
        eng().assume(self.z != _bvval(-(1 << 63)))
        return _mk_int(-self.z)

    def __pos__(self):
        return self

    def __abs__(self):
        eng().assume(self.z != _bvval(-(1 << 63)))
        return _mk_int(z3.If(self.z < _bvval(0), -self.z, self.z))

    def __invert__(self):
        return _mk_int(~self.z)

    def __round__(self, n=None):
        return self

    def __trunc__(self):
        return self

    def __floor__(self):
        return self

    def __ceil__(self):
        return self

    # -- comparisons
    def _cmp(self, o, op):
        if _is_floaty(o):
            return getattr(SymFloat(_to_fp(self)), "_cmp")(o, op)
        b = _to_bv(o)
        if b is None:
            if op == "eq":
                return False
            if op == "ne":
                return True
            return NotImplemented
        a = self.z
        e = {"eq": a == b, "ne": a != b, "lt": a < b, "le": a <= b, "gt": a > b, "ge": a >= b}[op]
        return _mk_bool(e)

    def __eq__(self, o): return self._cmp(o, "eq")
    def __ne__(self, o): return self._cmp(o, "ne")
    def __lt__(self, o): return self._cmp(o, "lt")
    def __le__(self, o): return self._cmp(o, "le")
    def __gt__(self, o): return self._cmp(o, "gt")
    def __ge__(self, o): return self._cmp(o, "ge")


class SymFloat:
    __slots__ = ("z",)

    def __init__(self, z):
        self.z = z
        e = Engine.current
        if e is not None:
            e.fp_used = True

    def __bool__(self):
        return eng().decide(z3.Not(z3.fpIsZero(self.z)))

    def __float__(self):
        raise Unsupported("float() on SymFloat outside patched namespace")

    def __int__(self):
        raise Unsupported("int() on SymFloat outside patched namespace")

    def __hash__(self):
        raise Unsupported("hash of symbolic float")

    def __format__(self, spec):
        return eng().new_token("flt", self.z, spec)

    def __str__(self):
        return eng().new_token("flt", self.z, "")

    def __repr__(self):
        return f"<SymFloat {_real_str(self.z)[:60]}>"

    def _bin(self, o, op, rev=False):
        b = _to_fp(o)
        if b is None:
            return NotImplemented
        a = self.z
        if rev:
            a, b = b, a
        if op == "add":
            return _mk_float(z3.fpAdd(RNE, a, b))
        if op == "sub":
            return _mk_float(z3.fpSub(RNE, a, b))
        if op == "mul":
            return _mk_float(z3.fpMul(RNE, a, b))
        if op == "truediv":
            if eng().decide(z3.fpIsZero(b)):
                raise ZeroDivisionError("float division by zero")
            return _mk_float(fp_div(a, b))
        if op == "floordiv":
            if eng().decide(z3.fpIsZero(b)):
                raise ZeroDivisionError("float floor division by zero")
            q = z3.fpDiv(RNE, a, b)
            return _mk_float(z3.fpRoundToIntegral(z3.RTN(), q))
        if op == "pow":
            bb = _simp(b)
            if z3.is_fp_value(bb):
                k = _fp_to_py(bb)
                if k is not None and k == _real_int(k) and 0 <= k <= 8:
                    res = z3.FPVal(1.0, F64)
                    for _ in _real_range(_real_int(k)):
                        res = z3.fpMul(RNE, res, a)
                    return _mk_float(res)
            raise Unsupported("float pow")
        raise Unsupported("float " + op)

    def __add__(self, o): return self._bin(o, "add")
    def __radd__(self, o): return self._bin(o, "add", True)
    def __sub__(self, o): return self._bin(o, "sub")
    def __rsub__(self, o): return self._bin(o, "sub", True)
    def __mul__(self, o): return self._bin(o, "mul")
    def __rmul__(self, o): return self._bin(o, "mul", True)
    def __truediv__(self, o): return self._bin(o, "truediv")
    def __rtruediv__(self, o): return self._bin(o, "truediv", True)
    def __floordiv__(self, o): return self._bin(o, "floordiv")
    def __rfloordiv__(self, o): return self._bin(o, "floordiv", True)
    def __pow__(self, o, mod=None): return self._bin(o, "pow")
    def __rpow__(self, o): return self._bin(o, "pow", True)
    def __mod__(self, o): raise Unsupported("float mod")
    def __rmod__(self, o): raise Unsupported("float mod")

    def __neg__(self):
        return _mk_float(z3.fpNeg(self.z))

    def __pos__(self):
        return self

    def __abs__(self):
        return _mk_float(z3.fpAbs(self.z))

    def __round__(self, n=None):
        if n is not None:
            raise Unsupported("round(x, n)")
        return _float_to_int(self.z, z3.RNE())

    def __trunc__(self):
        return _float_to_int(self.z, RTZ)

    def _cmp(self, o, op):
        b = _to_fp(o)
        if b is None:
            if op == "eq":
                return False
            if op == "ne":
                return True
            return NotImplemented
        a = self.z
        e = {"eq": z3.fpEQ(a, b), "ne": z3.Not(z3.fpEQ(a, b)), "lt": z3.fpLT(a, b), "le": z3.fpLEQ(a, b),
             "gt": z3.fpGT(a, b), "ge": z3.fpGEQ(a, b)}[op]
        return _mk_bool(e)

    def __eq__(self, o): return self._cmp(o, "eq")
    def __ne__(self, o): return self._cmp(o, "ne")
    def __lt__(self, o): return self._cmp(o, "lt")
    def __le__(self, o): return self._cmp(o, "le")
    def __gt__(self, o): return self._cmp(o, "gt")
    def __ge__(self, o): return self._cmp(o, "ge")


def _float_to_int(fz, rm):
    e = eng()
    bad = z3.Or(z3.fpIsNaN(fz), z3.fpIsInf(fz))
    if e.decide(bad):
        raise OverflowError("cannot convert float infinity/NaN to integer")
    lim = z3.FPVal(2.0 ** 62, F64)
    e.assume(z3.And(z3.fpLT(fz, lim), z3.fpGT(fz, z3.fpNeg(lim))))
    r = z3.fpRoundToIntegral(rm, fz)
    return _mk_int(z3.fpToSBV(RTZ, r, z3.BitVecSort(W)))


# ------------------------------------------------------------------ patched builtins
def p_int(x=0, *a):
    if a:
        return _real_int(x, *a)
    if _real_isinstance(x, SymInt):
        return x
    if _real_isinstance(x, SymBool):
        return x._as_int()
    if _real_isinstance(x, SymFloat):
        return _float_to_int(x.z, RTZ)
    if _real_isinstance(x, _real_str) and "\x00" in x:
        raise Unsupported("int() of rendered symbolic text")
    return _real_int(x)


def p_float(x=0.0):
    if _real_isinstance(x, SymFloat):
        return x
    if _real_isinstance(x, (SymInt, SymBool)):
        return _mk_float(_to_fp(x))
    if _real_isinstance(x, _real_str) and "\x00" in x:
        raise Unsupported("float() of rendered symbolic text")
    return _real_float(x)


def p_bool(x=False):
    if _real_isinstance(x, SymBool):
        return x
    if _real_isinstance(x, SymInt):
        return _mk_bool(x.z != _bvval(0))
    if _real_isinstance(x, SymFloat):
        return _mk_bool(z3.Not(z3.fpIsZero(x.z)))
    return _real_bool(x)


def p_str(x="", *a):
    if a:
        return _real_str(x, *a)
    if _real_isinstance(x, (SymInt, SymFloat, SymBool)):
        return x.__str__()
    return _real_str(x)


def _flatten_classes(cls):
    if _real_isinstance(cls, tuple):
        out = []
        for c in cls:
            out.extend(_flatten_classes(c))
        return out
    return [{p_int: _real_int, p_float: _real_float, p_bool: _real_bool, p_str: _real_str,
             PInt: _real_int, PFloat: _real_float, PStr: _real_str}.get(cls, cls)]


def p_isinstance(obj, cls):
    classes = tuple(_flatten_classes(cls))
    if _real_isinstance(obj, SymBool):
        return any(c in (_real_bool, _real_int, object) for c in classes)
    if _real_isinstance(obj, SymInt):
        return any(c in (_real_int, object) or c.__name__ in ("Integral", "Real", "Number", "Rational", "Complex")
                   for c in classes)
    if _real_isinstance(obj, SymFloat):
        return any(c in (_real_float, object) or c.__name__ in ("Real", "Number", "Complex") for c in classes)
    return _real_isinstance(obj, classes)


def p_round(x, n=None):
    if _real_isinstance(x, (SymInt, SymFloat)):
        return x.__round__(n) if n is not None else x.__round__()
    if _real_isinstance(x, SymBool):
        return x._as_int()
    return _real_round(x, n) if n is not None else _real_round(x)


def p_len(x):
    if _real_isinstance(x, _real_str) and "\x00" in x:
        eng().notes.append(("imprecise", "len() of rendered symbolic text"))
        raise Unsupported("len() of rendered symbolic text")
    return _real_len(x)


def p_range(*args):
    conc = []
    for a in args:
        if _real_isinstance(a, SymInt):
            conc.append(eng().concretize(a.z))
        elif _real_isinstance(a, SymBool):
            conc.append(1 if eng().decide(a.z) else 0)
        else:
            conc.append(a)
    return _real_range(*conc)


def p_abs(x):
    return _real_abs(x)


def p_print(*a, **k):
    return None


class _TypeProxy:
    """Callable stand-in for a builtin type that still works as an isinstance target."""


class PStr(_real_str):
    """`str` for executed namespaces: callable like p_str, subclassable like str (class X(str) keeps working)."""

    def __new__(cls, x="", *a):
        if cls is PStr:
            return p_str(x, *a)
        return _real_str.__new__(cls, x, *a)


class PInt(_real_int):
    def __new__(cls, x=0, *a):
        if cls is PInt:
            return p_int(x, *a)
        return _real_int.__new__(cls, x, *a)


class PFloat(_real_float):
    def __new__(cls, x=0.0):
        if cls is PFloat:
            return p_float(x)
        return _real_float.__new__(cls, x)


def make_builtins(extra=None, importer=None):
    d = dict(_bi.__dict__)
    d.update({
        "int": PInt, "float": PFloat, "bool": p_bool, "str": PStr,
        "isinstance": p_isinstance, "round": p_round, "len": p_len, "range": p_range,
        "print": p_print,
    })
    if importer is not None:
        d["__import__"] = importer
    if extra:
        d.update(extra)
    return d


# ------------------------------------------------------------------ host world
REPO_SRC = os.environ.get("REDUINO_SRC", "/repo/src")


class FakeTime:
    @staticmethod
    def sleep(seconds):
        eng().emit("time.sleep", seconds)

    @staticmethod
    def time():
        return 0.0

    @staticmethod
    def monotonic():
        return 0.0


def _make_math():
    """`math` for patched namespaces: the C functions that the host modules may call on numbers, re-stated in Python
    over the proxies (isclose follows CPython's mathmodule.c line by line); everything else is the stock module."""
    import math as _m
    ns = types.SimpleNamespace(**{k: getattr(_m, k) for k in dir(_m) if not k.startswith("__")})

    def _symbolic(*xs):
        return any(_real_isinstance(x, (SymInt, SymFloat, SymBool, SymReal)) for x in xs)

    def _num(x):
        if _real_isinstance(x, SymReal):
            return x
        return p_float(x)

    def isclose(a, b, *, rel_tol=1e-09, abs_tol=0.0):
        if not _symbolic(a, b, rel_tol, abs_tol):
            return _m.isclose(a, b, rel_tol=rel_tol, abs_tol=abs_tol)
        if rel_tol < 0.0 or abs_tol < 0.0:
            raise ValueError("tolerances must be non-negative")
        a, b = _num(a), _num(b)
        if a == b:
            return True
        if not _real_isinstance(a, SymReal) and not _real_isinstance(b, SymReal):
            if isinf(a) or isinf(b):
                return False
        diff = p_abs(b - a)
        return bool(diff <= p_abs(rel_tol * b)) or bool(diff <= p_abs(rel_tol * a)) or bool(diff <= abs_tol)

    def isinf(x):
        if _real_isinstance(x, SymFloat):
            return _mk_bool(z3.fpIsInf(x.z))
        if _symbolic(x):
            return False
        return _m.isinf(x)

    def isnan(x):
        if _real_isinstance(x, SymFloat):
            return _mk_bool(z3.fpIsNaN(x.z))
        if _symbolic(x):
            return False
        return _m.isnan(x)

    def isfinite(x):
        if _real_isinstance(x, SymFloat):
            return _mk_bool(z3.Not(z3.Or(z3.fpIsNaN(x.z), z3.fpIsInf(x.z))))
        if _symbolic(x):
            return True
        return _m.isfinite(x)

    def fabs(x):
        return p_abs(_num(x)) if _symbolic(x) else _m.fabs(x)

    def floor(x):
        if _real_isinstance(x, SymFloat):
            return _float_to_int(x.z, z3.RTN())
        if _real_isinstance(x, (SymInt, SymBool)):
            return p_int(x)
        return _m.floor(x)

    def ceil(x):
        if _real_isinstance(x, SymFloat):
            return _float_to_int(x.z, z3.RTP())
        if _real_isinstance(x, (SymInt, SymBool)):
            return p_int(x)
        return _m.ceil(x)

    def trunc(x):
        if _real_isinstance(x, SymFloat):
            return _float_to_int(x.z, RTZ)
        if _real_isinstance(x, (SymInt, SymBool)):
            return p_int(x)
        return _m.trunc(x)

    ns.isclose, ns.isinf, ns.isnan, ns.isfinite, ns.fabs = isclose, isinf, isnan, isfinite, fabs
    ns.floor, ns.ceil, ns.trunc = floor, ceil, trunc
    return ns


class HostWorld:
    """The real Reduino host modules executed under patched builtins, isolated from sys.modules."""

    def __init__(self, src_root: Optional[str] = None, stub_top=True, patched=True, overrides=None,
                 real_prefixes=(), ast_transform=None, extra_builtins=None):
        self.src_root = src_root or REPO_SRC
        self.patched = patched
        self.overrides = dict(overrides or {})      # module name -> fake module object (effects stubbed)
        self.real_prefixes = tuple(real_prefixes)    # Reduino.* sub-packages taken from the stock import system
        self.ast_transform = ast_transform            # optional ast.Module -> ast.Module applied before compiling
        self.extra_builtins = dict(extra_builtins or {})
        self.modules = {}
        self.fake_sys = types.SimpleNamespace(modules=self.modules, argv=[], path=[], stderr=sys.stderr,
                                              stdout=sys.stdout, version_info=sys.version_info,
                                              platform=sys.platform)
        if patched:
            self.builtins = make_builtins(importer=self._import)
        else:  # stock CPython builtins (replay): only imports are redirected, print silenced
            self.builtins = dict(_bi.__dict__)
            self.builtins["__import__"] = self._import
            self.builtins["print"] = p_print
        self.builtins.update(self.extra_builtins)
        if stub_top:
            top = types.ModuleType("Reduino")
            top.__path__ = [os.path.join(self.src_root, "Reduino")]
            top.__package__ = "Reduino"
            top.target = lambda *a, **k: ""
            self.modules["Reduino"] = top

    # import machinery
    def _file_for(self, name):
        rel = name.split(".")
        base = os.path.join(self.src_root, *rel)
        if os.path.isdir(base) and os.path.exists(os.path.join(base, "__init__.py")):
            return os.path.join(base, "__init__.py"), True
        if os.path.exists(base + ".py"):
            return base + ".py", False
        return None, False

    def load(self, name):
        if name in self.modules:
            return self.modules[name]
        if "." in name:
            parent = name.rsplit(".", 1)[0]
            self.load(parent)
        path, is_pkg = self._file_for(name)
        if path is None:
            d = os.path.join(self.src_root, *name.split("."))
            if os.path.isdir(d):      # namespace package (no __init__.py)
                mod = types.ModuleType(name)
                mod.__path__ = [d]
                mod.__package__ = name
                self.modules[name] = mod
                if "." in name:
                    setattr(self.modules[name.rsplit(".", 1)[0]], name.rsplit(".", 1)[1], mod)
                return mod
            raise ImportError(f"host world: no module {name}")
        mod = types.ModuleType(name)
        mod.__file__ = path
        mod.__package__ = name if is_pkg else name.rsplit(".", 1)[0]
        if is_pkg:
            mod.__path__ = [os.path.dirname(path)]
        mod.__dict__["__builtins__"] = self.builtins
        self.modules[name] = mod
        with open(path) as f:
            text = f.read()
        if self.ast_transform is not None:
            import ast as _ast
            tree = self.ast_transform(_ast.parse(text, path))
            _ast.fix_missing_locations(tree)
            code = compile(tree, path, "exec")
        else:
            code = compile(text, path, "exec")
        # dataclasses (with postponed annotations) consult the *real* sys.modules[cls.__module__] while the
        # class body is processed: make the module visible there for the duration of the exec only.
        inserted = name not in sys.modules
        if inserted:
            sys.modules[name] = mod
        try:
            exec(code, mod.__dict__)
        except BaseException:
            del self.modules[name]
            raise
        finally:
            if inserted and sys.modules.get(name) is mod:
                del sys.modules[name]
        if "." in name:
            setattr(self.modules[name.rsplit(".", 1)[0]], name.rsplit(".", 1)[1], mod)
        return mod

    def _import(self, name, globals=None, locals=None, fromlist=(), level=0):
        if level > 0:
            pkg = (globals or {}).get("__package__") or ""
            parts = pkg.split(".")
            if level > 1:
                parts = parts[:-(level - 1)]
            base = ".".join(parts)
            absname = base + ("." + name if name else "")
        else:
            absname = name
        top = absname.split(".")[0]
        if absname in self.overrides:
            return self.overrides[absname]
        if top == "Reduino" and any(absname == p or absname.startswith(p + ".") for p in self.real_prefixes):
            import importlib as _il
            mod = _il.import_module(absname)
            return mod if fromlist else _il.import_module(top)
        if top == "Reduino":
            mod = self.load(absname)
            if fromlist:
                for item in fromlist:
                    if item != "*" and not hasattr(mod, item):
                        try:
                            self.load(absname + "." + item)
                        except ImportError:
                            pass
                return mod
            return self.modules["Reduino"] if level == 0 else mod
        if absname == "sys":
            return self.fake_sys
        if absname == "time":
            return FakeTime
        if absname == "math" and self.patched:
            if not hasattr(self, "_math"):
                self._math = _make_math()
            return self._math
        if absname == "importlib":
            ns = types.SimpleNamespace(import_module=lambda n, package=None: self.load(n))
            return ns
        return _bi.__import__(name, globals, locals, fromlist, level)

    def run_script(self, source: str, filename="<script>", extra_globals=None):
        g = {"__builtins__": self.builtins, "__name__": "__main__", "__package__": None}
        if extra_globals:
            g.update(extra_globals)
        code = compile(source, filename, "exec")
        exec(code, g)
        return g


# ------------------------------------------------------------------ helpers for property code
def zbool(x):
    """z3 Bool for a (possibly symbolic) Python truth value, without forking."""
    if _real_isinstance(x, SymBool):
        return x.z
    if _real_isinstance(x, SymInt):
        return x.z != _bvval(0)
    if _real_isinstance(x, SymFloat):
        return z3.Not(z3.fpIsZero(x.z))
    return z3.BoolVal(_real_bool(x))


def zint(x):
    b = _to_bv(x)
    if b is None:
        raise Unsupported(f"not an int: {type(x).__name__}")
    return b


def zfp(x):
    f = _to_fp(x)
    if f is None:
        raise Unsupported(f"not a number: {type(x).__name__}")
    return f


def is_sym(x):
    return _real_isinstance(x, (SymInt, SymFloat, SymBool))


def same_value(a, b):
    """z3 Bool: two Python values (numbers / bools / str / tuples) are equal, type-insensitively for numbers."""
    if _real_isinstance(a, (tuple, list)) and _real_isinstance(b, (tuple, list)):
        if _real_len(a) != _real_len(b):
            return z3.BoolVal(False)
        return z3.And([same_value(x, y) for x, y in zip(a, b)]) if a else z3.BoolVal(True)
    if _is_floaty(a) or _is_floaty(b):
        fa, fb = _to_fp(a), _to_fp(b)
        if fa is None or fb is None:
            return z3.BoolVal(False)
        return z3.Or(z3.fpEQ(fa, fb), z3.And(z3.fpIsNaN(fa), z3.fpIsNaN(fb)))
    ba, bb = _to_bv(a), _to_bv(b)
    if ba is not None and bb is not None:
        return ba == bb
    if ba is not None or bb is not None:
        return z3.BoolVal(False)
    return z3.BoolVal(a == b)


def sym_int(name, lo=None, hi=None):
    """Fresh symbolic Python int (64-bit signed), optionally range-constrained (signed)."""
    e = eng()
    var = z3.BitVec(name, W)
    e.inputs.append((name, var))
    if lo is not None:
        e.assume(var >= _bvval(lo))
    if hi is not None:
        e.assume(var <= _bvval(hi))
    return SymInt(var)


def sym_float(name, lo=None, hi=None, finite=True):
    e = eng()
    var = z3.FP(name, F64)
    e.inputs.append((name, var))
    if finite:
        e.assume(z3.Not(z3.Or(z3.fpIsNaN(var), z3.fpIsInf(var))))
    if lo is not None:
        e.assume(z3.fpGEQ(var, z3.FPVal(lo, F64)))
    if hi is not None:
        e.assume(z3.fpLEQ(var, z3.FPVal(hi, F64)))
    return SymFloat(var)


def sym_bool(name):
    e = eng()
    var = z3.Bool(name)
    e.inputs.append((name, var))
    return SymBool(var)


def model_value(m, var):
    v = m.eval(var, model_completion=True)
    if z3.is_bv_value(v):
        n = v.as_long()
        return n - (1 << v.size()) if n >> (v.size() - 1) else n
    if z3.is_fp_value(v):
        if v.isNaN():
            return float("nan")
        f = _fp_to_py(v)
        return f
    if z3.is_true(v):
        return True
    if z3.is_false(v):
        return False
    return str(v)


# ------------------------------------------------------------------ concrete replay mode
class ConcreteEngine(Engine):
    """Replay: inputs come from an assignment, no proxies are created, no solver is used."""

    def __init__(self, assignment):
        super().__init__()
        self.assignment = dict(assignment)

    def new_input(self, kind, key, width=32, lo=None, hi=None, signed_ext=True):
        k = self.in_count.get((kind, key), 0)
        self.in_count[(kind, key)] = k + 1
        name = f"in_{kind}_{key}_{k}"
        v = self.assignment.get(name, lo if lo is not None else 0)
        self.inputs.append((name, v))
        return v

    def decide(self, cond):
        cond = _simp(cond)
        if z3.is_true(cond):
            return True
        if z3.is_false(cond):
            return False
        raise Unsupported("symbolic decision in concrete replay")

    def assume(self, cond):
        cond = _simp(cond)
        if z3.is_false(cond):
            raise PathAbort("assumption-false-in-replay")

    def run(self, fn):
        prev = Engine.current
        Engine.current = self
        self.prefix, self.decisions, self.pc, self.events = [], [], [], []
        self.tokens, self.in_count, self.inputs, self.notes = {}, {}, [], []
        try:
            status, result, exc = "ok", None, None
            try:
                result = fn()
            except PathAbort as pa:
                status = pa.reason
            except Exception as e:
                status, exc = "raised", e
            return PathOutcome(self, status, result, exc)
        finally:
            Engine.current = prev


_orig_sym_int, _orig_sym_float, _orig_sym_bool = sym_int, sym_float, sym_bool


def sym_int(name, lo=None, hi=None):  # noqa: F811
    e = eng()
    if _real_isinstance(e, ConcreteEngine):
        v = e.assignment.get(name, lo if lo is not None else 0)
        e.inputs.append((name, v))
        return _real_int(v)
    return _orig_sym_int(name, lo, hi)


def sym_float(name, lo=None, hi=None, finite=True):  # noqa: F811
    e = eng()
    if _real_isinstance(e, ConcreteEngine):
        v = e.assignment.get(name, lo if lo is not None else 0.0)
        e.inputs.append((name, v))
        return _real_float(v)
    return _orig_sym_float(name, lo, hi, finite)


def sym_bool(name):  # noqa: F811
    e = eng()
    if _real_isinstance(e, ConcreteEngine):
        v = e.assignment.get(name, False)
        e.inputs.append((name, v))
        return _real_bool(v)
    return _orig_sym_bool(name)


# ------------------------------------------------------------------ exact-real proxy (for algebraic laws)
class SymReal:
    """Exact real arithmetic proxy (z3 Real): used only where a property is about the algebraic law,
    with IEEE rounding explicitly outside the claim."""
    __slots__ = ("z",)

    def __init__(self, z):
        self.z = z
        e = Engine.current
        if e is not None:
            e.fp_used = True

    @staticmethod
    def _c(o):
        if _real_isinstance(o, SymReal):
            return o.z
        if _real_isinstance(o, (_real_int, _real_float)) and not _real_isinstance(o, _real_bool):
            return z3.RealVal(repr(o)) if _real_isinstance(o, _real_float) else z3.RealVal(o)
        return None

    def _b(self, o, f, rev=False):
        c = self._c(o)
        if c is None:
            return NotImplemented
        a, b = (c, self.z) if rev else (self.z, c)
        return SymReal(f(a, b))

    def __add__(self, o): return self._b(o, lambda a, b: a + b)
    def __radd__(self, o): return self._b(o, lambda a, b: a + b, True)
    def __sub__(self, o): return self._b(o, lambda a, b: a - b)
    def __rsub__(self, o): return self._b(o, lambda a, b: a - b, True)
    def __mul__(self, o): return self._b(o, lambda a, b: a * b)
    def __rmul__(self, o): return self._b(o, lambda a, b: a * b, True)

    def __truediv__(self, o):
        c = self._c(o)
        if c is None:
            return NotImplemented
        if eng().decide(c == 0):
            raise ZeroDivisionError("float division by zero")
        return SymReal(self.z / c)

    def __rtruediv__(self, o):
        c = self._c(o)
        if c is None:
            return NotImplemented
        if eng().decide(self.z == 0):
            raise ZeroDivisionError("float division by zero")
        return SymReal(c / self.z)

    def __neg__(self): return SymReal(-self.z)
    def __abs__(self): return SymReal(z3.If(self.z >= 0, self.z, -self.z))
    def __pos__(self): return self

    def _cmp(self, o, f):
        c = self._c(o)
        if c is None:
            return NotImplemented
        return _mk_bool(f(self.z, c))

    def __eq__(self, o): return self._cmp(o, lambda a, b: a == b)
    def __ne__(self, o): return self._cmp(o, lambda a, b: a != b)
    def __lt__(self, o): return self._cmp(o, lambda a, b: a < b)
    def __le__(self, o): return self._cmp(o, lambda a, b: a <= b)
    def __gt__(self, o): return self._cmp(o, lambda a, b: a > b)
    def __ge__(self, o): return self._cmp(o, lambda a, b: a >= b)
    __hash__ = None

    def __repr__(self):
        return f"<SymReal {_real_str(self.z)[:60]}>"


def sym_real(name):
    e = eng()
    if _real_isinstance(e, ConcreteEngine):
        from fractions import Fraction
        v = e.assignment.get(name)
        v = Fraction(0) if v is None else Fraction(v)
        e.inputs.append((name, v))
        return v
    var = z3.Real(name)
    e.inputs.append((name, var))
    return SymReal(var)


def zreal(x):
    """z3 Real term of an exact-real proxy or of a concrete number (replay)."""
    if _real_isinstance(x, SymReal):
        return x.z
    from fractions import Fraction
    if _real_isinstance(x, _real_float):
        x = Fraction(x)
    return z3.RealVal(str(Fraction(x)))
