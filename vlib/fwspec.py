"""Specification checks on the firmware alone: lower a script, execute symbolically, and for every feasible
path ask the solver for inputs that make a spec condition fail; replay on the g++ binary."""
from __future__ import annotations

import time
from typing import Callable, List, Optional

import z3

from . import fwsym, lower
from .common import Result
from .diffscript import run_firmware_concrete


class FwSpec:
    """analyse(events, ctx) -> list of (claim name, bad) where bad is a z3 Bool / python bool that is true
    exactly when the claim is violated.  ctx: dict(symbolic=bool, ret=return value of the last entry, ...)."""

    def __init__(self, oid, src, analyse: Callable, *, passes=1, entries=None, pre=None, cpp_extra="",
                 max_block_visits=200, max_paths=800, timeout_ms=30000, claim_timeout_ms=90000, budget_s=300,
                 replay_prestate=None, describe="", clock_wrap=False):
        self.oid, self.src, self.analyse, self.passes = oid, src, analyse, passes
        self.entries, self.pre, self.cpp_extra = entries, pre, cpp_extra
        self.max_block_visits, self.max_paths = max_block_visits, max_paths
        self.timeout_ms, self.claim_timeout_ms, self.budget_s = timeout_ms, claim_timeout_ms, budget_s
        self.replay_prestate = replay_prestate
        self.describe = describe
        self.clock_wrap = clock_wrap

    def run(self) -> Result:
        t0 = time.time()
        res = Result(self.oid, "holds")
        res.sample = {"obligation": self.oid, "script": self.src, "what": self.describe}
        try:
            cpp = lower.transpile(self.src)
        except (ValueError, SyntaxError) as e:
            res.detail = "rejected by the transpiler: " + str(e)[:200]
            res.nontrivial = False
            res.extra["rejected"] = True
            return res
        try:
            mod = lower.lower_cpp(cpp + self.cpp_extra, tag="s")
        except lower.CompileError as e:
            res.verdict, res.detail = "inconclusive", "emitted C++ does not compile: " + e.output[:200]
            return res
        ex = fwsym.Executor(mod, max_block_visits=self.max_block_visits, max_paths=self.max_paths,
                            solver_timeout_ms=self.timeout_ms)
        st = ex.init_state()
        if self.entries is not None:
            entries = self.entries(mod, ex)
        else:
            entries = [(c, []) for c in mod.ctors] + [("#setup", []), ("_Z5setupv", [])]
            if self.pre:
                entries.append((self.pre, []))
            for _ in range(self.passes):
                entries += [("#loop", []), ("_Z4loopv", [])]
        state = {"cex": None, "claims": 0, "paths": 0, "inconc": []}

        def on_path(pr):
            state["paths"] += 1
            if state["cex"] is not None:
                return
            if time.time() - t0 > self.budget_s:
                state["inconc"].append("time budget exhausted")
                return
            if pr.status != "ok":
                if not (pr.status.startswith("ended:infeasible") or pr.status == "ended:assume-false"):
                    state["inconc"].append(pr.status)
                return
            ctx = {"symbolic": True, "ret": pr.state.user.get("_last_ret"), "state": pr.state, "ex": ex, "mod": mod}
            try:
                claims = self.analyse(pr.events, ctx)
            except fwsym.IRUnsupported as e:
                state["inconc"].append("analysis: " + str(e))
                return
            for claim in claims:
                name, bad = claim[0], claim[1]
                state["claims"] += 1
                if bad is False:
                    continue
                if len(claim) > 2:
                    # (name, over-approximation, exact): `bad` replaces floating-point sub-terms by uninterpreted tokens,
                    # so unsat(bad) implies unsat(exact); only a sat/unknown answer falls through to the exact claim
                    fast = z3.simplify(bad) if z3.is_expr(bad) else bad
                    if fast is False or (z3.is_expr(fast) and z3.is_false(fast)):
                        continue
                    if z3.is_expr(fast) and ex.check(fast) == "unsat":
                        continue
                    bad = claim[2]
                    if bad is False:
                        continue
                if bad is True:
                    r, m = ex.model_for()
                else:
                    b = z3.simplify(bad)
                    if z3.is_false(b):
                        continue
                    r, m = ex.model_for(b, timeout_ms=self.claim_timeout_ms)
                if r == "sat":
                    state["cex"] = (name, m)
                    return
                if r == "unknown":
                    state["inconc"].append("unknown: claim " + name)
        fwsym.CLOCK_WRAP[0] = self.clock_wrap
        try:
            ex.explore(st, entries, on_path)
        finally:
            fwsym.CLOCK_WRAP[0] = False
        res.queries, res.solver_s, res.paths = ex.stats["queries"], ex.stats["solver_s"], state["paths"]
        res.sample["paths"] = state["paths"]
        res.sample["claims_checked"] = state["claims"]
        if state["cex"] is not None:
            name, m = state["cex"]
            return self._replay(res, cpp, name, dict(m))
        if state["claims"] == 0:
            res.verdict, res.detail = "inconclusive", "vacuous: no claim evaluated; " + "; ".join(state["inconc"][:3])
        elif state["inconc"]:
            res.verdict, res.detail = "inconclusive", "; ".join(sorted(set(state["inconc"]))[:4])
        return res

    def _replay(self, res, cpp, name, assign):
        extra = self.replay_prestate(assign) if self.replay_prestate else ""
        fev, err = run_firmware_concrete(cpp + extra, self.passes, assign)
        if fev is None:
            res.verdict, res.detail = "harness-error", "replay: " + err
            return res
        ctx = {"symbolic": False, "ret": None, "assign": assign}
        claims = [(c[0], c[2] if len(c) > 2 else c[1]) for c in self.analyse(fev, ctx)]
        failed = [n for n, bad in claims if bad is True or (z3.is_expr(bad) and z3.is_true(z3.simplify(bad)))]
        if failed:
            res.verdict = "violation"
            res.detail = f"claim '{failed[0]}' fails on the compiled firmware for inputs {assign}"
            res.witness = {"script": self.src, "inputs": assign, "claim": failed[0], "class": failed[0][:80],
                           "trace": [" ".join(str(x.signed() if isinstance(x, fwsym.BV) and x.concrete else
                                                  (x.v if isinstance(x, fwsym.FP) else x)) for x in e) for e in fev[:60]]}
        else:
            res.verdict = "harness-error"
            res.detail = f"counterexample for '{name}' did not replay: {assign}"
        return res
